#!/bin/bash
# run_all.sh <tier>: run every registered check in sequence; print one status line per property.
cd "$(dirname "$0")"
T=${1:-quick}
for p in C01 C02 C03 C04 C05 C06 C07 C08 C09 C10 C11 C12 C13 C14 C15 C16 C17 C18 C19; do
  s=$(date +%s)
  ./vcheck $p $T > /tmp/runall_$p.txt 2>&1
  rc=$?
  echo "$p rc=$rc $(( $(date +%s) - s ))s $(grep "$p $T:" /tmp/runall_$p.txt)"
done
