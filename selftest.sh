#!/bin/bash
# selftest.sh [name-pattern]: apply every seeded change under /verif/seeded/<id>/patch.diff to a scratch worktree of
# /repo and assert that the quick check of each property listed in its meta.json reports a violation (exit 1).
# /repo itself and /verif/evidence are not touched.
cd "$(dirname "$0")"
PAT=${1:-}
TIER=${TIER:-quick}
fail=0
for d in seeded/*/; do
  id=$(basename $d)
  [ -n "$PAT" ] && [[ "$id" != *$PAT* ]] && continue
  [ -f $d/patch.diff ] || continue
  props=$(python3 -c "import json,sys; print(' '.join(json.load(open('$d/meta.json'))['caught_by']))")
  wt=$(mktemp -d /tmp/selftest-wt.XXXX); out=$(mktemp -d /tmp/selftest-out.XXXX)
  git -C /repo worktree add --detach -q $wt HEAD
  if ! git -C $wt apply $PWD/$d/patch.diff; then echo "SELFTEST $id: patch does not apply"; fail=1; else
    for p in $props; do
      s=$(date +%s)
      VERIF_REPO=$wt VERIF_OUT=$out ./vcheck $p $TIER > $out/log_$p.txt 2>&1; rc=$?
      v=$(grep -c "^VIOLATION" $out/log_$p.txt)
      cl=$(grep "violated clause" $out/log_$p.txt | sed 's/ in .*//; s/.*clause //' | sort -u | tr '\n' ' ')
      if [ $rc -eq 1 ]; then echo "SELFTEST $id $p: detected ($v signatures: $cl) $(( $(date +%s) - s ))s"; else echo "SELFTEST $id $p: MISSED rc=$rc"; tail -3 $out/log_$p.txt; fail=1; fi
    done
  fi
  git -C /repo worktree remove --force $wt; rm -rf $out
done
exit $fail
