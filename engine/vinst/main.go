// vinst: source-to-source instrumenter. It writes an instrumented copy of the varmq module (current
// working tree of -repo) into -out: imports of sync, sync/atomic, time and context are redirected to the
// shim packages, and go / send / receive / range-over-channel / select / close are routed through the vrt
// runtime. Only the standard library is used (go/parser, go/types, go/format).
package main

import (
	"flag"
	"fmt"
	"go/ast"
	"go/format"
	"go/importer"
	"go/parser"
	"go/token"
	"go/types"
	"io"
	"io/fs"
	"os"
	"path/filepath"
	"reflect"
	"sort"
	"strconv"
	"strings"
)

const mod = "github.com/goptics/varmq"
const vrtPath = mod + "/internal/vrt"

var shimImports = map[string]string{
	"sync":        vrtPath + "/sync",
	"sync/atomic": vrtPath + "/atomic",
	"time":        vrtPath + "/time",
	"context":     vrtPath + "/context",
}

type loader struct {
	std         types.Importer
	pkgs        map[string]*types.Package
	fset        *token.FileSet
	root        string
	info        map[string]*types.Info
	files       map[string][]*ast.File
	dirOverride map[string]string // import path -> directory (shims, harness)
	noRewrite   map[string]bool   // packages whose imports are left alone (the shims themselves)
	verbatim    map[string][]string
	tags        map[string]string
}

func (m *loader) Import(path string) (*types.Package, error) {
	if p, ok := m.pkgs[path]; ok {
		return p, nil
	}
	if path == mod || strings.HasPrefix(path, mod+"/") {
		return m.load(path)
	}
	return m.std.Import(path)
}

func (m *loader) load(path string) (*types.Package, error) {
	dir := filepath.Join(m.root, strings.TrimPrefix(path, mod))
	if d, ok := m.dirOverride[path]; ok {
		dir = d
	}
	ents, err := os.ReadDir(dir)
	if err != nil {
		return nil, err
	}
	var names []string
	for _, e := range ents {
		n := e.Name()
		if strings.HasSuffix(n, ".go") && !strings.HasSuffix(n, "_test.go") {
			names = append(names, filepath.Join(dir, n))
		}
	}
	var files []*ast.File
	for _, n := range names {
		f, err := parser.ParseFile(m.fset, n, nil, parser.ParseComments)
		if err != nil {
			return nil, err
		}
		if !buildOK(f) {
			m.verbatim[path] = append(m.verbatim[path], n)
			continue
		}
		if t := buildTag(f); t != "" {
			m.tags[n] = t
		}
		if !m.noRewrite[path] {
			for _, im := range f.Imports {
				ip, _ := strconv.Unquote(im.Path.Value)
				if np, ok := shimImports[ip]; ok {
					if im.Name == nil {
						im.Name = ast.NewIdent(filepath.Base(ip))
					}
					im.Path.Value = strconv.Quote(np)
				}
			}
		}
		files = append(files, f)
	}
	info := &types.Info{Types: map[ast.Expr]types.TypeAndValue{}, Uses: map[*ast.Ident]types.Object{}}
	conf := types.Config{Importer: m}
	p, err := conf.Check(path, m.fset, files, info)
	if err != nil {
		return nil, err
	}
	m.pkgs[path], m.info[path], m.files[path] = p, info, files
	return p, nil
}

// buildTag returns the //go:build expression of a file ("" if none).
func buildTag(f *ast.File) string {
	for _, cg := range f.Comments {
		if cg.Pos() > f.Package {
			break
		}
		for _, c := range cg.List {
			if strings.HasPrefix(c.Text, "//go:build ") {
				return strings.TrimSpace(strings.TrimPrefix(c.Text, "//go:build "))
			}
		}
	}
	return ""
}

// buildOK: files tagged "race" are the race-mode variants; the !race variant is the one type-checked and
// instrumented, the race variant is copied verbatim (it must not contain channel operations or go statements).
func buildOK(f *ast.File) bool { return buildTag(f) != "race" }

type rw struct {
	info    *types.Info
	fset    *token.FileSet
	usedVrt bool
	lib     bool
	skip    map[ast.Node]bool
	n       int
	fn      []string
}

func (r *rw) tmp(p string) *ast.Ident { r.n++; return ast.NewIdent(fmt.Sprintf("_vrt_%s%d", p, r.n)) }

func vrtCall(fn string, args ...ast.Expr) *ast.CallExpr {
	return &ast.CallExpr{Fun: &ast.SelectorExpr{X: ast.NewIdent("vrt"), Sel: ast.NewIdent(fn)}, Args: args}
}

func strLit(s string) ast.Expr { return &ast.BasicLit{Kind: token.STRING, Value: strconv.Quote(s)} }

var nodeT = reflect.TypeOf((*ast.Node)(nil)).Elem()

func (r *rw) walk(n ast.Node) {
	if n == nil || reflect.ValueOf(n).IsNil() {
		return
	}
	if fd, ok := n.(*ast.FuncDecl); ok {
		r.fn = append(r.fn, fd.Name.Name)
		defer func() { r.fn = r.fn[:len(r.fn)-1] }()
	}
	if s, ok := n.(*ast.SelectStmt); ok {
		for _, c := range s.Body.List {
			cc := c.(*ast.CommClause)
			if cc.Comm != nil {
				r.skip[cc.Comm] = true
				switch x := cc.Comm.(type) {
				case *ast.ExprStmt:
					r.skip[x.X] = true
				case *ast.AssignStmt:
					r.skip[x.Rhs[0]] = true
				}
			}
		}
	}
	v := reflect.ValueOf(n).Elem()
	for i := 0; i < v.NumField(); i++ {
		f := v.Field(i)
		switch f.Kind() {
		case reflect.Interface:
			if f.IsNil() || !f.Type().Implements(nodeT) {
				continue
			}
			c := f.Interface().(ast.Node)
			r.walk(c)
			if nc := r.post(c, n); nc != c {
				f.Set(reflect.ValueOf(nc))
			}
		case reflect.Slice:
			for j := 0; j < f.Len(); j++ {
				e := f.Index(j)
				if e.Kind() == reflect.Interface && !e.IsNil() && e.Type().Implements(nodeT) {
					c := e.Interface().(ast.Node)
					r.walk(c)
					if nc := r.post(c, n); nc != c {
						e.Set(reflect.ValueOf(nc))
					}
				} else if e.Kind() == reflect.Ptr && e.Type().Implements(nodeT) && !e.IsNil() {
					r.walk(e.Interface().(ast.Node))
				}
			}
		case reflect.Ptr:
			if f.IsNil() || !f.Type().Implements(nodeT) {
				continue
			}
			r.walk(f.Interface().(ast.Node))
		}
	}
}

func (r *rw) isChan(e ast.Expr) bool {
	if tv, ok := r.info.Types[e]; ok && tv.Type != nil {
		_, ok := tv.Type.Underlying().(*types.Chan)
		return ok
	}
	return false
}

func (r *rw) post(n ast.Node, parent ast.Node) ast.Node {
	if r.skip[n] {
		return n
	}
	switch x := n.(type) {
	case *ast.GoStmt:
		r.usedVrt = true
		var pre []ast.Stmt
		call := x.Call
		fn := r.tmp("f")
		pre = append(pre, &ast.AssignStmt{Lhs: []ast.Expr{fn}, Tok: token.DEFINE, Rhs: []ast.Expr{call.Fun}})
		var args []ast.Expr
		for _, a := range call.Args {
			t := r.tmp("a")
			pre = append(pre, &ast.AssignStmt{Lhs: []ast.Expr{t}, Tok: token.DEFINE, Rhs: []ast.Expr{a}})
			args = append(args, t)
		}
		inner := &ast.CallExpr{Fun: fn, Args: args, Ellipsis: call.Ellipsis}
		lit := &ast.FuncLit{Type: &ast.FuncType{Params: &ast.FieldList{}}, Body: &ast.BlockStmt{List: []ast.Stmt{&ast.ExprStmt{X: inner}}}}
		name := "Go"
		if !r.lib {
			name = "GoUser"
		}
		encl := "?"
		if len(r.fn) > 0 {
			encl = r.fn[len(r.fn)-1]
		}
		pos := r.fset.Position(x.Pos())
		site := fmt.Sprintf("%s:%d", filepath.Base(pos.Filename), pos.Line)
		pre = append(pre, &ast.ExprStmt{X: vrtCall(name, strLit(encl), strLit(site), lit)})
		return &ast.BlockStmt{List: pre}
	case *ast.SendStmt:
		r.usedVrt = true
		return &ast.ExprStmt{X: vrtCall("Send", x.Chan, x.Value)}
	case *ast.UnaryExpr:
		if x.Op != token.ARROW {
			return n
		}
		r.usedVrt = true
		two := false
		switch p := parent.(type) {
		case *ast.AssignStmt:
			two = len(p.Lhs) == 2 && len(p.Rhs) == 1
		case *ast.ValueSpec:
			two = len(p.Names) == 2 && len(p.Values) == 1
		}
		if two {
			return vrtCall("Recv2", x.X)
		}
		return vrtCall("Recv1", x.X)
	case *ast.CallExpr:
		if id, ok := x.Fun.(*ast.Ident); ok && id.Name == "close" {
			if _, ok := r.info.Uses[id].(*types.Builtin); ok {
				r.usedVrt = true
				x.Fun = &ast.SelectorExpr{X: ast.NewIdent("vrt"), Sel: ast.NewIdent("Close")}
			}
		}
		return n
	case *ast.RangeStmt:
		if !r.isChan(x.X) {
			return n
		}
		r.usedVrt = true
		ch := r.tmp("ch")
		ok := r.tmp("ok")
		var key ast.Expr = ast.NewIdent("_")
		tok := token.DEFINE
		var pre []ast.Stmt
		if x.Key != nil {
			key = x.Key
			if x.Tok == token.ASSIGN {
				tok = token.ASSIGN
				pre = append(pre, &ast.DeclStmt{Decl: &ast.GenDecl{Tok: token.VAR, Specs: []ast.Spec{&ast.ValueSpec{Names: []*ast.Ident{ok}, Type: ast.NewIdent("bool")}}}})
			}
		}
		recv := &ast.AssignStmt{Lhs: []ast.Expr{key, ok}, Tok: tok, Rhs: []ast.Expr{vrtCall("Recv2", ch)}}
		brk := &ast.IfStmt{Cond: &ast.UnaryExpr{Op: token.NOT, X: ok}, Body: &ast.BlockStmt{List: []ast.Stmt{&ast.BranchStmt{Tok: token.BREAK}}}}
		body := append(append(pre, recv, brk), x.Body.List...)
		return &ast.ForStmt{Init: &ast.AssignStmt{Lhs: []ast.Expr{ch}, Tok: token.DEFINE, Rhs: []ast.Expr{x.X}}, Body: &ast.BlockStmt{List: body}}
	case *ast.SelectStmt:
		r.usedVrt = true
		var pre []ast.Stmt
		var descs []ast.Expr
		var clauses []ast.Stmt
		for i, c := range x.Body.List {
			cc := c.(*ast.CommClause)
			var body []ast.Stmt
			switch cm := cc.Comm.(type) {
			case nil:
				descs = append(descs, vrtCall("SelDefault"))
			case *ast.SendStmt:
				ch, val := r.tmp("c"), r.tmp("v")
				pre = append(pre, &ast.AssignStmt{Lhs: []ast.Expr{ch}, Tok: token.DEFINE, Rhs: []ast.Expr{cm.Chan}})
				pre = append(pre, &ast.AssignStmt{Lhs: []ast.Expr{val}, Tok: token.DEFINE, Rhs: []ast.Expr{cm.Value}})
				descs = append(descs, vrtCall("SelSend", ch))
				body = append(body, &ast.ExprStmt{X: vrtCall("SendNow", ch, val)})
			case *ast.ExprStmt: // <-ch
				ch := r.tmp("c")
				pre = append(pre, &ast.AssignStmt{Lhs: []ast.Expr{ch}, Tok: token.DEFINE, Rhs: []ast.Expr{cm.X.(*ast.UnaryExpr).X}})
				descs = append(descs, vrtCall("SelRecv", ch))
				body = append(body, &ast.ExprStmt{X: vrtCall("RecvNow2", ch)})
			case *ast.AssignStmt: // v := <-ch  /  v, ok := <-ch
				ch := r.tmp("c")
				pre = append(pre, &ast.AssignStmt{Lhs: []ast.Expr{ch}, Tok: token.DEFINE, Rhs: []ast.Expr{cm.Rhs[0].(*ast.UnaryExpr).X}})
				descs = append(descs, vrtCall("SelRecv", ch))
				lhs := cm.Lhs
				if len(lhs) == 1 {
					lhs = []ast.Expr{lhs[0], ast.NewIdent("_")}
				}
				body = append(body, &ast.AssignStmt{Lhs: lhs, Tok: cm.Tok, Rhs: []ast.Expr{vrtCall("RecvNow2", ch)}})
			}
			body = append(body, cc.Body...)
			clauses = append(clauses, &ast.CaseClause{List: []ast.Expr{&ast.BasicLit{Kind: token.INT, Value: strconv.Itoa(i)}}, Body: body})
		}
		// default clause: only reached during teardown (Select returns -1); keeps the statement terminating
		clauses = append(clauses, &ast.CaseClause{Body: []ast.Stmt{&ast.ExprStmt{X: &ast.CallExpr{Fun: ast.NewIdent("panic"), Args: []ast.Expr{vrtCall("SelectAborted")}}}}})
		sw := &ast.SwitchStmt{Tag: vrtCall("Select", descs...), Body: &ast.BlockStmt{List: clauses}}
		if _, labelled := parent.(*ast.LabeledStmt); labelled {
			fail("unsupported: labelled select statement")
		}
		return &ast.BlockStmt{List: append(pre, sw)}
	}
	return n
}

func addImport(f *ast.File, name, path string) {
	spec := &ast.ImportSpec{Path: &ast.BasicLit{Kind: token.STRING, Value: strconv.Quote(path)}}
	if name != "" {
		spec.Name = ast.NewIdent(name)
	}
	gd := &ast.GenDecl{Tok: token.IMPORT, Specs: []ast.Spec{spec}}
	f.Decls = append([]ast.Decl{gd}, f.Decls...)
}

func copyFile(dst, src string) {
	os.MkdirAll(filepath.Dir(dst), 0o755)
	in, err := os.Open(src)
	check(err)
	defer in.Close()
	out, err := os.Create(dst)
	check(err)
	defer out.Close()
	_, err = io.Copy(out, in)
	check(err)
}

func check(err error) {
	if err != nil {
		fail(err.Error())
	}
}

func fail(msg string) {
	fmt.Println("ERROR vinst:", msg)
	os.Exit(2)
}

// repoPackages lists the import paths of all packages of the module (non-test files), skipping nested modules.
func repoPackages(root string) []string {
	var pk []string
	filepath.WalkDir(root, func(p string, d fs.DirEntry, err error) error {
		if err != nil {
			return nil
		}
		if d.IsDir() {
			if p != root {
				if strings.HasPrefix(d.Name(), ".") || d.Name() == "testdata" || d.Name() == "vendor" || (d.Name() == "examples" && filepath.Dir(p) == root) {
					return filepath.SkipDir
				}
				if _, err := os.Stat(filepath.Join(p, "go.mod")); err == nil {
					return filepath.SkipDir
				}
			}
			ents, _ := os.ReadDir(p)
			for _, e := range ents {
				if strings.HasSuffix(e.Name(), ".go") && !strings.HasSuffix(e.Name(), "_test.go") {
					rel, _ := filepath.Rel(root, p)
					if rel == "." {
						pk = append(pk, mod)
					} else {
						pk = append(pk, mod+"/"+filepath.ToSlash(rel))
					}
					break
				}
			}
		}
		return nil
	})
	sort.Strings(pk)
	return pk
}

func main() {
	repo := flag.String("repo", "/repo", "repository working tree")
	out := flag.String("out", "", "output directory (instrumented module)")
	shim := flag.String("shim", "", "directory with the shim packages vrt, sync, atomic, time, context")
	harness := flag.String("harness", "", "directory with vharness/*.go and cmd/*/*.go")
	litmus := flag.String("litmus", "", "directory with the litmus package (optional)")
	flag.Parse()
	if *out == "" || *shim == "" {
		fail("need -out and -shim")
	}
	fset := token.NewFileSet()
	ld := &loader{std: importer.ForCompiler(fset, "source", nil), pkgs: map[string]*types.Package{}, fset: fset, root: *repo,
		info: map[string]*types.Info{}, files: map[string][]*ast.File{}, dirOverride: map[string]string{}, noRewrite: map[string]bool{}, verbatim: map[string][]string{}, tags: map[string]string{}}
	shimPk := map[string]string{vrtPath: "vrt", vrtPath + "/sync": "sync", vrtPath + "/atomic": "atomic", vrtPath + "/time": "time", vrtPath + "/context": "context"}
	for p, d := range shimPk {
		ld.dirOverride[p] = filepath.Join(*shim, d)
		ld.noRewrite[p] = true
	}
	harnessPk := map[string]bool{}
	pkgs := repoPackages(*repo)
	if *harness != "" {
		hp := mod + "/internal/vharness"
		ld.dirOverride[hp] = filepath.Join(*harness, "vharness")
		harnessPk[hp] = true
		pkgs = append(pkgs, hp)
		// command packages (the explorer main) are copied verbatim: they use the real time package
		ms, _ := filepath.Glob(filepath.Join(*harness, "cmd", "*", "*.go"))
		for _, m := range ms {
			copyFile(filepath.Join(*out, "cmd", filepath.Base(filepath.Dir(m)), filepath.Base(m)), m)
		}
	}
	if *litmus != "" {
		lp := vrtPath + "/litmus"
		ld.dirOverride[lp] = *litmus
		harnessPk[lp] = true
		pkgs = append(pkgs, lp)
	}
	// The generated capacity setter must exist before the harness is type-checked.
	capsSrc := ""
	for _, p := range pkgs {
		if p == mod+"/internal/queues" {
			qp, err := ld.load(p)
			check(err)
			okI, okM := false, false
			if v, ok := qp.Scope().Lookup("initialBufferCapacity").(*types.Var); ok && types.Identical(v.Type(), types.Typ[types.Int]) {
				okI = true
			}
			if v, ok := qp.Scope().Lookup("chunkMaxCapacity").(*types.Var); ok && types.Identical(v.Type(), types.Typ[types.Int]) {
				okM = true
			}
			if okI && okM {
				capsSrc = "package queues\n\n// VrtSetCaps sets the FIFO segment capacities (generated by vinst).\nfunc VrtSetCaps(initial, max int) bool {\n\tinitialBufferCapacity, chunkMaxCapacity = initial, max\n\treturn true\n}\n"
			} else {
				capsSrc = "package queues\n\n// VrtSetCaps: the capacity variables were not found (generated by vinst).\nfunc VrtSetCaps(initial, max int) bool { return false }\n"
			}
			// re-load with the generated file so that importers see VrtSetCaps
			tmpd, err := os.MkdirTemp("", "vinst-q")
			check(err)
			defer os.RemoveAll(tmpd)
			src := filepath.Join(*repo, "internal", "queues")
			ents, _ := os.ReadDir(src)
			for _, e := range ents {
				if strings.HasSuffix(e.Name(), ".go") && !strings.HasSuffix(e.Name(), "_test.go") {
					copyFile(filepath.Join(tmpd, e.Name()), filepath.Join(src, e.Name()))
				}
			}
			check(os.WriteFile(filepath.Join(tmpd, "zz_vrt_caps.go"), []byte(capsSrc), 0o644))
			delete(ld.pkgs, p)
			delete(ld.info, p)
			delete(ld.files, p)
			ld.dirOverride[p] = tmpd
		}
	}
	for _, p := range pkgs {
		if _, done := ld.pkgs[p]; done {
			continue
		}
		_, err := ld.load(p)
		check(err)
	}
	for path, files := range ld.files {
		if _, isShim := shimPk[path]; isShim {
			continue
		}
		rel := strings.TrimPrefix(strings.TrimPrefix(path, mod), "/")
		for _, f := range files {
			fn := fset.Position(f.Pos()).Filename
			r := &rw{info: ld.info[path], fset: fset, lib: !harnessPk[path], skip: map[ast.Node]bool{}}
			hasVrt := false
			for _, im := range f.Imports {
				p, _ := strconv.Unquote(im.Path.Value)
				if p == vrtPath {
					hasVrt = true
				}
			}
			r.walk(f)
			if r.usedVrt && !hasVrt {
				addImport(f, "vrt", vrtPath)
			}
			f.Comments = nil
			dst := filepath.Join(*out, rel, filepath.Base(fn))
			os.MkdirAll(filepath.Dir(dst), 0o755)
			w, err := os.Create(dst)
			check(err)
			if t := ld.tags[fn]; t != "" {
				fmt.Fprintf(w, "//go:build %s\n\n", t)
			}
			check(format.Node(w, fset, f))
			w.Close()
		}
		for _, v := range ld.verbatim[path] {
			copyFile(filepath.Join(*out, rel, filepath.Base(v)), v)
		}
	}
	copyFile(filepath.Join(*out, "go.mod"), filepath.Join(*repo, "go.mod"))
	copyFile(filepath.Join(*out, "go.sum"), filepath.Join(*repo, "go.sum"))
	for p, d := range shimPk {
		rel := strings.TrimPrefix(p, mod+"/")
		ms, _ := filepath.Glob(filepath.Join(*shim, d, "*.go"))
		for _, m := range ms {
			copyFile(filepath.Join(*out, rel, filepath.Base(m)), m)
		}
	}
	fmt.Printf("vinst: instrumented %d packages into %s\n", len(ld.files)-len(shimPk), *out)
}
