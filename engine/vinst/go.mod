module vinst

go 1.23
