package vrt

import "unsafe"

// Channels stay real Go channels; the runtime decides enabledness from len/cap plus a closed flag
// recorded at Close, and performs the real operation only when it cannot block.

//go:norace
func chptr[C any](ch C) unsafe.Pointer { return *(*unsafe.Pointer)(unsafe.Pointer(&ch)) }

//go:norace
func isClosed(p unsafe.Pointer) bool {
	for _, q := range S.closedL {
		if q == p {
			return true
		}
	}
	return false
}

//go:norace
func engineErr(msg string) {
	s := S
	if s.EngineErr == "" {
		s.EngineErr = msg
	}
	t := s.cur
	s.end(t)
}

//go:norace
func Send[T any](ch chan<- T, v T) {
	if Skip() {
		return
	}
	if Raw() {
		panic("vrt: channel send inside a monitor")
	}
	p := chptr(ch)
	if !Point(OpSend, p, func() bool {
		if p == nil {
			return false
		}
		return isClosed(p) || len(ch) < cap(ch) || cap(ch) == 0
	}) {
		return
	}
	if cap(ch) == 0 && !isClosed(p) {
		engineErr("unsupported: send on an unbuffered channel")
		return
	}
	ch <- v
}

//go:norace
func Recv2[T any](ch <-chan T) (v T, ok bool) {
	if Skip() {
		return
	}
	if Raw() {
		panic("vrt: channel receive inside a monitor")
	}
	p := chptr(ch)
	if !Point(OpRecv, p, func() bool {
		if p == nil {
			return false
		}
		return isClosed(p) || len(ch) > 0
	}) {
		return
	}
	v, ok = <-ch
	return
}

//go:norace
func Recv1[T any](ch <-chan T) T { v, _ := Recv2(ch); return v }

//go:norace
func Close[T any](ch chan<- T) {
	if Skip() {
		return
	}
	p := chptr(ch)
	if !Point(OpClose, p, nil) {
		return
	}
	close(ch) // panics like Go does on a closed or nil channel
	S.closedL = append(S.closedL, p)
}

// MarkClosed is used by shims that close real channels themselves (context).
//
//go:norace
func MarkClosed[T any](ch <-chan T) {
	p := chptr(ch)
	if p != nil && !isClosed(p) {
		S.closedL = append(S.closedL, p)
	}
}

type SelCase struct {
	p    unsafe.Pointer
	send bool
	def  bool
	ln   func() (int, int)
}

//go:norace
func SelSend[T any](ch chan<- T) SelCase {
	return SelCase{p: chptr(ch), send: true, ln: func() (int, int) { return len(ch), cap(ch) }}
}

//go:norace
func SelRecv[T any](ch <-chan T) SelCase {
	return SelCase{p: chptr(ch), ln: func() (int, int) { return len(ch), cap(ch) }}
}

//go:norace
func SelDefault() SelCase { return SelCase{def: true} }

//go:norace
func (c SelCase) ready() bool {
	if c.def || c.p == nil {
		return false
	}
	if isClosed(c.p) {
		return true
	}
	l, k := c.ln()
	if c.send {
		return l < k
	}
	return l > 0
}

// Select returns the index of the chosen case. With several ready cases the choice among them is a
// recorded environment choice; with none ready the default case (if any) is taken.
//
//go:norace
func Select(cases ...SelCase) int {
	if Skip() {
		return -1
	}
	if Raw() {
		panic("vrt: select inside a monitor")
	}
	def := -1
	for i, c := range cases {
		if c.def {
			def = i
		}
	}
	if !Point(OpSelect, nil, func() bool {
		if def >= 0 {
			return true
		}
		for _, c := range cases {
			if c.ready() {
				return true
			}
		}
		return false
	}) {
		return -1
	}
	var rd []int
	for i, c := range cases {
		if c.ready() {
			rd = append(rd, i)
		}
	}
	switch len(rd) {
	case 0:
		return def
	case 1:
		return rd[0]
	}
	return rd[Choose(len(rd))]
}

// SendNow / RecvNow2 perform the communication chosen by Select (no further point).
//
//go:norace
func SendNow[T any](ch chan<- T, v T) {
	if Skip() {
		return
	}
	ch <- v
}

//go:norace
func RecvNow2[T any](ch <-chan T) (T, bool) {
	if Skip() {
		var z T
		return z, false
	}
	v, ok := <-ch
	return v, ok
}

// SelectAborted is the panic value of a select statement interrupted by teardown.
func SelectAborted() any { return abortT{} }
