//go:build race

package vrt

import (
	"syscall"
	"unsafe"
)

// parker: hand-off through a futex word touched only from //go:norace functions, so that the
// race detector sees no happens-before edge between the thread that yields and the one that resumes.
type parker struct{ word uint32 }

//go:norace
//go:noinline
func ldw(p *uint32) uint32 { return *p }

//go:norace
//go:noinline
func stw(p *uint32, v uint32) { *p = v }

//go:norace
func (p *parker) init() {}

//go:norace
func (p *parker) park() {
	for {
		if ldw(&p.word) == 1 {
			stw(&p.word, 0)
			return
		}
		syscall.Syscall6(syscall.SYS_FUTEX, uintptr(unsafe.Pointer(&p.word)), 0 /*FUTEX_WAIT*/, 0, 0, 0, 0)
	}
}

//go:norace
func (p *parker) unpark() {
	stw(&p.word, 1)
	syscall.Syscall6(syscall.SYS_FUTEX, uintptr(unsafe.Pointer(&p.word)), 1 /*FUTEX_WAKE*/, 1<<30, 0, 0, 0)
}

const RaceMode = true
