// Package vrt is the controlled scheduler under which the instrumented varmq code runs.
//
// Exactly one thread (goroutine registered with the scheduler) runs at a time. Every
// shimmed synchronisation operation begins with a Point: the running thread publishes
// its pending operation and an enabledness predicate, the scheduler computes the enabled
// set in canonical order, takes the next choice from the replayed prefix (or choice 0)
// and hands control over. The sequence of choices is the replay file.
//
// All functions are //go:norace: in a -race build the hand-off (park_race.go) is
// invisible to the detector, so that only the *real* synchronisation operations which
// the shims perform underneath the model create happens-before edges.
package vrt

import (
	"encoding/json"
	"fmt"
	"runtime"
	"strings"
	"sync"
	"time"
	"unsafe"
)

type OpKind uint8

const (
	OpStart OpKind = iota
	OpAtomicLoad
	OpAtomicStore
	OpAtomicRMW
	OpLock
	OpRLock
	OpSend
	OpRecv
	OpSelect
	OpClose
	OpWgAdd
	OpWgWait
	OpCondWait
	OpCondBlocked
	OpCondSignal
	OpYield
	OpQuiesce
	OpTick
	OpPool
	OpChoose
	OpOnce
	OpCancel
	OpPlain
	OpExit
)

var kindNames = [...]string{"start", "aload", "astore", "armw", "lock", "rlock", "send", "recv", "select", "close", "wgadd", "wgwait", "condwait", "condblocked", "condsignal", "yield", "quiesce", "tick", "pool", "choose", "once", "cancel", "plain", "exit"}

func (k OpKind) String() string { return kindNames[k] }

// Thread is one scheduled goroutine.
type Thread struct {
	ID        int
	Name      string // enclosing function of the go statement that started it
	Site      string // file:line of the go statement
	Lib       bool   // started by library code (daemon for the hang oracle)
	Env       bool   // environment thread made by a shim (ticker); not a library goroutine
	pk        parker
	kind      OpKind
	obj       unsafe.Pointer
	en        func() bool
	yielding  bool
	done      bool
	Signalled bool
}

func (t *Thread) Done() bool   { return t.done }
func (t *Thread) Kind() OpKind { return t.kind }

// PointRec is one recorded scheduling decision.
type PointRec struct {
	NEnabled   int32
	Chosen     int32
	Tid        int32
	Kind       OpKind
	CurEnabled bool // the running thread was enabled and not yielding: switching away is a preemption
	Env        bool // environment choice (Choose), not a thread choice
}

type Sched struct {
	threads    []*Thread
	cur        *Thread
	prefix     []int32
	expectN    []int32 // optional: expected NEnabled for the replayed prefix (determinism check)
	Points     []PointRec
	aborting   bool
	raw        bool
	RawConfl   bool
	endc       chan struct{}
	ended      bool
	Crash      string
	CrashFrame string
	EngineErr  string
	Livelock   string // set instead of EngineErr when the step cap is hit while a sole library thread keeps running
	soleLib    int    // consecutive scheduling points at which the only enabled thread was one library thread
	soleLibT   *Thread
	closedL    []unsafe.Pointer
	Clock      int64
	Armed      int
	wg         sync.WaitGroup
	MaxSteps   int
	Diverged   bool
	Monitor    func()
	StateVec   func(buf []uint64) []uint64
	states     map[uint64]struct{}
	statesCap  int
	StatesFull bool
	objIdx     map[unsafe.Pointer]uint64
	tmp        []*Thread
	vec        []uint64
	PoolChoice bool
	Trace      func(p PointRec, t *Thread)
	PerExec    []func() // reset hooks of other shim packages
}

// S is the scheduler of the execution in progress (nil outside executions).
var S *Sched

// Options that persist across executions of one process.
var (
	OptStates     = true
	OptStatesCap  = 1 << 20
	OptPoolChoice = false
	OptMaxSteps   = 20000
	OptWatchdog   = 300 * time.Second
)

type abortT struct{}

//go:norace
func Cur() *Thread { return S.cur }

//go:norace
func Active() bool { return S != nil && !S.aborting }

//go:norace
func (s *Sched) newThread(name, site string, lib bool) *Thread {
	t := &Thread{ID: len(s.threads), Name: name, Site: site, Lib: lib, kind: OpStart}
	t.pk.init()
	s.threads = append(s.threads, t)
	return t
}

//go:norace
func (t *Thread) enabled() bool {
	if t.done || t.kind == OpQuiesce {
		return false
	}
	return t.en == nil || t.en()
}

//go:norace
func (s *Sched) end(t *Thread) {
	if !s.ended {
		s.ended = true
		s.cur = nil
		s.endc <- struct{}{}
	}
	if t != nil && !t.done {
		t.pk.park()
		s.resumeCheck()
	}
}

// schedule is called by the running thread t at a point (or at its exit).
//
//go:norace
func (s *Sched) schedule(t *Thread) {
	if s.Monitor != nil && !s.ended {
		s.raw = true
		s.Monitor()
		s.raw = false
	}
	en := s.tmp[:0]
	curEn := false
	tEn := !t.done && t.enabled()
	if tEn && !t.yielding {
		en = append(en, t)
		curEn = true
	}
	for _, o := range s.threads {
		if o != t && o.enabled() {
			en = append(en, o)
		}
	}
	if tEn && t.yielding {
		en = append(en, t)
	}
	if len(en) == 0 {
		// quiescence: release the quiesce-waiter with the lowest id
		for _, o := range s.threads {
			if !o.done && o.kind == OpQuiesce {
				en = append(en, o)
				break
			}
		}
	}
	s.tmp = en
	if len(en) == 0 {
		s.end(t)
		return
	}
	if len(en) == 1 && en[0].Lib && !en[0].Env {
		s.soleLib++
		s.soleLibT = en[0]
	} else {
		s.soleLib = 0
	}
	next := en[s.decide(len(en), t, curEn, false)]
	if s.ended {
		s.end(t)
		return
	}
	if next.kind == OpQuiesce {
		next.kind = OpYield
	}
	if next == t {
		return
	}
	s.cur = next
	next.pk.unpark()
	if !t.done {
		t.pk.park()
		s.resumeCheck()
	}
}

// decide records one decision among n alternatives and returns the chosen index.
//
//go:norace
func (s *Sched) decide(n int, t *Thread, curEn, env bool) int {
	i := len(s.Points)
	c := 0
	if i < len(s.prefix) {
		c = int(s.prefix[i])
		if c >= n || (i < len(s.expectN) && int(s.expectN[i]) != n) {
			s.Diverged = true
			if c >= n {
				c = 0
			}
		}
	}
	p := PointRec{NEnabled: int32(n), Chosen: int32(c), CurEnabled: curEn, Tid: int32(t.ID), Kind: t.kind, Env: env}
	s.Points = append(s.Points, p)
	if s.Trace != nil {
		s.Trace(p, t)
	}
	if s.states != nil {
		s.recordState()
	}
	if len(s.Points) > s.MaxSteps {
		if s.soleLib >= s.MaxSteps/4 && s.soleLibT != nil {
			// not a limit of the engine: one library goroutine has been the only thread able to move for thousands of
			// steps and does not come to rest (nobody else can change what it is waiting for): a livelock
			s.Livelock = "library goroutine " + s.soleLibT.Name + " keeps running alone without coming to rest"
		} else {
			s.EngineErr = "step cap exceeded"
		}
		s.ended = true
		s.cur = nil
		s.endc <- struct{}{}
	}
	return c
}

//go:norace
func (s *Sched) recordState() {
	if s.StatesFull {
		return
	}
	h := uint64(1469598103934665603)
	mix := func(v uint64) {
		h ^= v
		h *= 1099511628211
		h ^= h >> 29
	}
	for _, t := range s.threads {
		v := uint64(t.kind) << 1
		if t.done {
			v |= 1
		}
		if t.obj != nil {
			ix, ok := s.objIdx[t.obj]
			if !ok {
				ix = uint64(len(s.objIdx) + 1)
				s.objIdx[t.obj] = ix
			}
			v |= ix << 8
		}
		mix(v)
	}
	if s.StateVec != nil {
		s.raw = true
		s.vec = s.StateVec(s.vec[:0])
		s.raw = false
		for _, v := range s.vec {
			mix(v)
		}
	}
	if len(s.states) >= s.statesCap {
		s.StatesFull = true
		return
	}
	s.states[h] = struct{}{}
}

//go:norace
func (s *Sched) resumeCheck() {
	if s.aborting {
		runtime.Goexit()
	}
}

// Raw reports whether the caller runs inside a monitor (shim operations are not points and take no locks).
//
//go:norace
func Raw() bool { return S == nil || S.raw }

//go:norace
func RawConflict() { S.RawConfl = true }

// Skip reports whether a shim operation must be a no-op (teardown in progress).
//
//go:norace
func Skip() bool { return S == nil || S.aborting }

// Point is the generic scheduling point. It returns false if the operation must not be performed
// (teardown) — callers then return immediately.
//
//go:norace
func Point(k OpKind, obj unsafe.Pointer, en func() bool) bool {
	s := S
	if s == nil {
		panic("vrt: shim operation outside an execution")
	}
	if s.aborting {
		return false
	}
	if s.raw {
		return true
	}
	t := s.cur
	t.kind, t.obj, t.en, t.yielding = k, obj, en, false
	s.schedule(t)
	t.en = nil
	return !s.aborting
}

// Yield lets every other enabled thread run first (switching away is free).
//
//go:norace
func Yield() {
	s := S
	if s == nil || s.aborting || s.raw {
		return
	}
	t := s.cur
	t.kind, t.obj, t.en, t.yielding = OpYield, nil, nil, true
	s.schedule(t)
	t.yielding = false
}

// Quiesce blocks until no other thread is enabled.
//
//go:norace
func Quiesce() {
	s := S
	if s == nil || s.aborting || s.raw {
		return
	}
	t := s.cur
	t.kind, t.obj, t.en, t.yielding = OpQuiesce, nil, nil, false
	s.schedule(t)
}

// Choose is an environment choice point with n alternatives (0 is the default answer).
//
//go:norace
func Choose(n int) int {
	s := S
	if s == nil || s.aborting || s.raw || n <= 1 {
		return 0
	}
	t := s.cur
	k := t.kind
	t.kind = OpChoose
	c := s.decide(n, t, true, true)
	t.kind = k
	if s.ended {
		s.end(t)
	}
	return c
}

// Arm makes n further ticker deliveries available.
//
//go:norace
func Arm(n int) { S.Armed = n }

//go:norace
func goT(name, site string, lib, env bool, fn func()) *Thread {
	s := S
	if s == nil {
		panic("vrt: go outside an execution")
	}
	if s.aborting {
		return nil
	}
	t := s.newThread(name, site, lib)
	t.Env = env
	s.wg.Add(1)
	go func() {
		defer s.wg.Done()
		t.pk.park()
		if s.aborting {
			return
		}
		defer s.exit(t)
		fn()
	}()
	return t
}

// Go starts a library thread; GoUser a harness thread; GoEnv an environment thread.
//
//go:norace
func Go(name, site string, fn func()) { goT(name, site, true, false, fn) }

//go:norace
func GoUser(name, site string, fn func()) { goT(name, site, false, false, fn) }

//go:norace
func GoEnv(name string, fn func()) { goT(name, "env", true, true, fn) }

//go:norace
func (s *Sched) exit(t *Thread) {
	if r := recover(); r != nil {
		if _, isAbort := r.(abortT); !isAbort && !s.aborting && s.Crash == "" && !s.ended {
			buf := make([]byte, 16384)
			n := runtime.Stack(buf, false)
			s.Crash = fmt.Sprint(r)
			s.CrashFrame = firstLibFrame(string(buf[:n]))
		}
		t.done = true
		if !s.aborting {
			// a real process would have died here: the execution ends
			s.end(nil)
		}
		return
	}
	t.done = true
	if s.aborting || s.ended {
		return
	}
	t.kind = OpExit
	s.schedule(t)
}

const modPath = "github.com/goptics/varmq"

// firstLibFrame extracts the innermost frames of the module (outside vrt and the harness) from a stack dump.
//
//go:norace
func firstLibFrame(st string) string {
	var fr []string
	for _, ln := range strings.Split(st, "\n") {
		if !strings.HasPrefix(ln, modPath) {
			continue
		}
		if strings.Contains(ln, "/internal/vrt") || strings.Contains(ln, "/vharness") {
			continue
		}
		f := strings.TrimPrefix(ln, modPath)
		if i := strings.LastIndex(f, "("); i > 0 {
			f = f[:i]
		}
		f = strings.TrimLeft(f, "./")
		// drop generic instantiation noise and closure numbering
		f = strings.ReplaceAll(f, "[...]", "")
		fr = append(fr, f)
		if len(fr) == 3 {
			break
		}
	}
	return strings.Join(fr, "<")
}

// Blk describes a thread that had not finished when the execution ended.
type Blk struct {
	ID        int
	Name      string
	Site      string
	Kind      string
	Lib, Env  bool
}

func (b Blk) String() string { return fmt.Sprintf("%d:%s:%s", b.ID, b.Name, b.Kind) }

// Exec is the result of one execution.
type Exec struct {
	Points      []PointRec
	Crash       string
	CrashFrame  string
	EngineErr   string
	Livelock    string
	Blocked     []Blk // threads not done at the end
	UserBlocked int
	LibAlive    int // library threads (not env) still alive at the end
	LibAliveBy  map[string]int
	Diverged    bool
	Threads     int
}

// Run performs one execution of body under the given choice prefix.
//
//go:norace
func Run(prefix, expectN []int32, setup func(s *Sched), body func()) *Exec {
	s := &Sched{prefix: prefix, expectN: expectN, endc: make(chan struct{}, 1), MaxSteps: OptMaxSteps, PoolChoice: OptPoolChoice}
	if OptStates {
		if stateSet == nil {
			stateSet = map[uint64]struct{}{}
		}
		s.states = stateSet
		s.statesCap = OptStatesCap
		s.StatesFull = statesFull
		s.objIdx = map[unsafe.Pointer]uint64{}
	}
	S = s
	for _, f := range ResetHooks {
		f()
	}
	if setup != nil {
		setup(s)
	}
	m := s.newThread("main", "main", false)
	s.cur = m
	s.wg.Add(1)
	go func() {
		defer s.wg.Done()
		m.pk.park()
		defer s.exit(m)
		body()
	}()
	m.pk.unpark()
	// the watchdog only has to tell a wedged engine from a slow machine: generous, and longer for scenarios that
	// raise the step cap (a watchdog expiry is an ERROR of the check, never a verdict)
	wd := OptWatchdog + time.Duration(s.MaxSteps/10000)*time.Second
	if watchdog == nil {
		watchdog = time.NewTimer(wd)
	} else {
		watchdog.Reset(wd)
	}
	select {
	case <-s.endc:
		if !watchdog.Stop() {
			<-watchdog.C
		}
	case <-watchdog.C:
		// spinning or merely slow? a spinning thread reaches no further scheduling point
		n0 := len(s.Points)
		time.Sleep(5 * time.Second)
		progressed := len(s.Points) != n0 || s.ended
		buf := make([]byte, 1<<20)
		n := runtime.Stack(buf, true)
		spinFrame := ""
		for _, blk := range strings.Split(string(buf[:n]), "\n\n") {
			if progressed {
				break
			}
			ls := strings.Split(blk, "\n")
			if len(ls) < 2 || !(strings.Contains(ls[0], "[running]") || strings.Contains(ls[0], "[runnable")) || strings.Contains(blk, "vrt.Run(") {
				continue // parked threads wait on their parker; the goroutine that runs this watchdog is inside vrt.Run
			}
			fn := ls[1]
			if strings.HasPrefix(fn, "github.com/goptics/varmq") && !strings.Contains(fn, "/internal/vharness") && !strings.Contains(fn, "/internal/vrt") {
				spinFrame = fn
				if i := strings.Index(spinFrame, "("); i > 0 {
					spinFrame = spinFrame[:i]
				}
			}
		}
		if cur := s.cur; cur != nil && spinFrame != "" {
			// the thread that holds the processor has not reached a synchronisation operation for the whole watchdog
			// period and its innermost frame is library code: it spins there (e.g. walks a corrupted list). Not a
			// limit of the engine: reported with the schedule that led here so that the driver can file it as a violation.
			ch, ne := make([]int32, len(s.Points)), make([]int32, len(s.Points))
			for i, p := range s.Points {
				ch[i], ne[i] = p.Chosen, p.NEnabled
			}
			b, _ := json.Marshal(map[string]any{"thread": cur.Name + " in " + spinFrame, "site": cur.Site, "choices": ch, "nenabled": ne, "watchdog_s": int(wd.Seconds())})
			fmt.Printf("\nSPIN %s\n", b)
			exitProcess(3)
		}
		fmt.Printf("ERROR engine watchdog: execution did not end within %v\n%s\n", wd, buf[:n])
		exitProcess(2)
	}
	x := &Exec{Points: s.Points, Crash: s.Crash, CrashFrame: s.CrashFrame, EngineErr: s.EngineErr, Livelock: s.Livelock, Diverged: s.Diverged, Threads: len(s.threads)}
	for _, t := range s.threads {
		if !t.done {
			x.Blocked = append(x.Blocked, Blk{ID: t.ID, Name: t.Name, Site: t.Site, Kind: t.kind.String(), Lib: t.Lib, Env: t.Env})
			if !t.Lib {
				x.UserBlocked++
			} else if !t.Env {
				x.LibAlive++
				if x.LibAliveBy == nil {
					x.LibAliveBy = map[string]int{}
				}
				x.LibAliveBy[t.Name]++
			}
		}
	}
	statesFull = s.StatesFull
	s.aborting = true
	for _, t := range s.threads {
		if !t.done {
			t.pk.unpark()
		}
	}
	s.wg.Wait()
	S = nil
	return x
}

var (
	watchdog   *time.Timer
	stateSet   map[uint64]struct{}
	statesFull bool
	ResetHooks []func()
	exitProcess = func(code int) { panic(fmt.Sprintf("exit %d", code)) }
)

// SetExit installs the process exit function (os.Exit) without vrt importing os in shims' way.
func SetExit(f func(int)) { exitProcess = f }

// States returns the number of distinct state fingerprints seen so far in this process and whether the cap was hit.
func States() (int, bool) { return len(stateSet), statesFull }

// StateKeys returns the fingerprints (for merging across shards).
func StateKeys() []uint64 {
	r := make([]uint64, 0, len(stateSet))
	for k := range stateSet {
		r = append(r, k)
	}
	return r
}

func ResetStates() { stateSet = nil; statesFull = false }

// ThreadsSnapshot calls f for every thread (harness monitors use it to count live library threads by name).
//
//go:norace
func ThreadsSnapshot(f func(t *Thread)) {
	for _, t := range S.threads {
		f(t)
	}
}

// LiveLib counts live (not done) non-env library threads whose Name has the given prefix ("" = all).
//
//go:norace
func LiveLib(prefix string) int {
	n := 0
	for _, t := range S.threads {
		if t.Lib && !t.Env && !t.done && strings.HasPrefix(t.Name, prefix) {
			n++
		}
	}
	return n
}

// Now is the virtual clock in nanoseconds.
//
//go:norace
func Now() int64 {
	if S == nil {
		return 0
	}
	return S.Clock
}

//go:norace
func Advance(d int64) { S.Clock += d }

//go:norace
func NPoints() int { return len(S.Points) }

// RunRaw runs body as a purely sequential program: shim operations are neither points nor blocking
// (used by the sequence/input enumerations on data structures that start no goroutines).
//
//go:norace
func RunRaw(body func()) (crash string) {
	s := &Sched{raw: true, endc: make(chan struct{}, 1)}
	S = s
	for _, f := range ResetHooks {
		f()
	}
	m := s.newThread("main", "main", false)
	s.cur = m
	defer func() {
		if r := recover(); r != nil {
			crash = fmt.Sprint(r)
		}
		S = nil
	}()
	body()
	return ""
}

// RawDo runs f in raw mode (shim operations are not points and take no locks): the harness uses it to read
// library getters at a precise moment without adding scheduling points.
//
//go:norace
func RawDo(f func()) {
	s := S
	if s == nil || s.aborting {
		return
	}
	old := s.raw
	s.raw = true
	f()
	s.raw = old
}
