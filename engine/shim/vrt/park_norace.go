//go:build !race

package vrt

// parker: hand-off through a 1-slot channel (normal builds).
type parker struct{ wake chan struct{} }

func (p *parker) init()   { p.wake = make(chan struct{}, 1) }
func (p *parker) park()   { <-p.wake }
func (p *parker) unpark() {
	select {
	case p.wake <- struct{}{}:
	default:
	}
}

// RaceMode reports whether this is a -race build (real operations are mirrored underneath the model).
const RaceMode = false
