package vrt

import (
	"fmt"
	"sort"
	"time"
)

// Mode is the cost function that bounds the exploration.
type Mode uint8

const (
	PB Mode = iota // preemption bound: switching away from an enabled, non-yielding thread costs 1
	NB             // every non-default choice costs 1
	DB             // delay bound: choosing the j-th entry of the canonical order costs j
)

func (m Mode) String() string { return [...]string{"PB", "NB", "DB"}[m] }

func ParseMode(s string) (Mode, error) {
	switch s {
	case "PB", "pb":
		return PB, nil
	case "NB", "nb":
		return NB, nil
	case "DB", "db":
		return DB, nil
	}
	return PB, fmt.Errorf("unknown mode %q", s)
}

// Violation is one oracle clause that failed in one execution.
type Violation struct {
	Prop   string `json:"prop"`
	Clause string `json:"clause"`
	Detail string `json:"detail"`
}

func (v Violation) Sig() string { return v.Prop + "|" + v.Clause + "|" + v.Detail }

// Instance is one fresh copy of a scenario, good for exactly one execution.
type Instance struct {
	Setup func(s *Sched)
	Body  func()
	// Check judges the finished execution. hist is a hash of the observable event log.
	Check func(x *Exec) (v []Violation, hist uint64)
}

type Found struct {
	V        Violation `json:"violation"`
	Choices  []int32   `json:"choices"`
	NEnabled []int32   `json:"nenabled"`
	Cost     int       `json:"cost"`
	Bound    int       `json:"bound"`
	Count    int64     `json:"count"`
}

type BoundStats struct {
	Bound       int   `json:"bound"`
	Execs       int64 `json:"execs"`
	Transitions int64 `json:"transitions"`
	Completed   bool  `json:"completed"`
	Violating   int64 `json:"violating"`
	Nontrivial  int64 `json:"nontrivial_execs"`
	WallMs      int64 `json:"wall_ms"`
}

type Explorer struct {
	New      func() *Instance
	Mode     Mode
	Shard    int
	NShards  int
	Level    int
	Deadline time.Time
	MaxFound int

	bound     int
	counter   int64
	cur       *BoundStats
	timedOut  bool
	EngineErr string
	Found     map[string]*Found
	Hist      map[uint64]struct{}
	HistFull  bool
	MaxPoints int
	MaxThr    int
	nSince    int
	Sample    func(x *Exec, choices []int32) // called for owned executions (the harness keeps a few)
}

func cost(m Mode, p PointRec, alt int32) int {
	if alt == 0 {
		return 0
	}
	switch m {
	case NB:
		return 1
	case DB:
		return int(alt)
	default:
		if p.Env || p.CurEnabled {
			return 1
		}
		return 0
	}
}

// RunOne executes one schedule and returns the execution, its violations and history hash.
func (e *Explorer) RunOne(prefix, expectN []int32) (*Exec, []Violation, uint64) {
	in := e.New()
	x := Run(prefix, expectN, in.Setup, in.Body)
	if x.EngineErr != "" {
		return x, nil, 0
	}
	if x.Diverged {
		x.EngineErr = "replay diverged"
		return x, nil, 0
	}
	v, h := in.Check(x)
	return x, v, h
}

func choicesOf(x *Exec, n int) ([]int32, []int32) {
	c := make([]int32, n)
	ne := make([]int32, n)
	for i := 0; i < n; i++ {
		c[i], ne[i] = x.Points[i].Chosen, x.Points[i].NEnabled
	}
	return c, ne
}

func (e *Explorer) explore(prefix, expectN []int32, depth int, owned bool) {
	if e.timedOut || e.EngineErr != "" {
		return
	}
	e.nSince++
	if e.nSince >= 32 {
		e.nSince = 0
		if !e.Deadline.IsZero() && time.Now().After(e.Deadline) {
			e.timedOut = true
			return
		}
	}
	x, viols, hist := e.RunOne(prefix, expectN)
	if x.EngineErr != "" {
		c, _ := choicesOf(x, len(x.Points))
		e.EngineErr = fmt.Sprintf("%s (schedule %v)", x.EngineErr, c)
		return
	}
	count := owned || (e.Shard == 0)
	if count {
		e.cur.Execs++
		e.cur.Transitions += int64(len(x.Points))
		if len(x.Points) > e.MaxPoints {
			e.MaxPoints = len(x.Points)
		}
		if x.Threads > e.MaxThr {
			e.MaxThr = x.Threads
		}
		if depth > 0 {
			e.cur.Nontrivial++
			if !e.HistFull {
				if len(e.Hist) >= 1<<18 {
					e.HistFull = true
				} else {
					e.Hist[hist] = struct{}{}
				}
			}
		}
		if len(viols) > 0 {
			e.cur.Violating++
			c, ne := choicesOf(x, len(x.Points))
			cst := 0
			for _, p := range x.Points {
				cst += cost(e.Mode, p, p.Chosen)
			}
			for _, v := range viols {
				f := e.Found[v.Sig()]
				if f == nil {
					if len(e.Found) < e.MaxFound {
						e.Found[v.Sig()] = &Found{V: v, Choices: c, NEnabled: ne, Cost: cst, Bound: e.bound, Count: 1}
					}
				} else {
					f.Count++
				}
			}
		}
		if e.Sample != nil {
			c, _ := choicesOf(x, len(x.Points))
			e.Sample(x, c)
		}
	}
	cst := 0
	for i := 0; i < len(x.Points); i++ {
		p := x.Points[i]
		if i >= len(prefix) {
			for alt := int32(1); alt < p.NEnabled; alt++ {
				if cst+cost(e.Mode, p, alt) > e.bound {
					if e.Mode != PB {
						break // costs are monotone in alt for NB/DB
					}
					continue
				}
				childOwned := owned
				if !owned && depth+1 == e.Level {
					e.counter++
					if int(e.counter%int64(e.NShards)) != e.Shard {
						continue
					}
					childOwned = true
				}
				np := make([]int32, i+1)
				nn := make([]int32, i+1)
				for k := 0; k < i; k++ {
					np[k], nn[k] = x.Points[k].Chosen, x.Points[k].NEnabled
				}
				np[i], nn[i] = alt, p.NEnabled
				e.explore(np, nn, depth+1, childOwned)
				if e.timedOut || e.EngineErr != "" {
					return
				}
			}
		}
		cst += cost(e.Mode, p, p.Chosen)
	}
}

// RunBound explores everything within the given bound and returns its statistics.
func (e *Explorer) RunBound(bound int) BoundStats {
	if e.Found == nil {
		e.Found = map[string]*Found{}
		e.Hist = map[uint64]struct{}{}
	}
	if e.NShards <= 0 {
		e.NShards = 1
	}
	if e.MaxFound == 0 {
		e.MaxFound = 64
	}
	e.Level = 2
	if bound < 2 {
		e.Level = 1
	}
	if e.NShards == 1 {
		e.Level = 0
	}
	e.bound, e.counter, e.timedOut = bound, 0, false
	st := BoundStats{Bound: bound}
	e.cur = &st
	t0 := time.Now()
	e.explore(nil, nil, 0, e.NShards == 1)
	st.WallMs = time.Since(t0).Milliseconds()
	st.Completed = !e.timedOut && e.EngineErr == ""
	return st
}

// FoundSorted returns the findings, fewest deviations first.
func (e *Explorer) FoundSorted() []*Found {
	var r []*Found
	for _, f := range e.Found {
		r = append(r, f)
	}
	sort.Slice(r, func(i, j int) bool {
		if r[i].Bound != r[j].Bound {
			return r[i].Bound < r[j].Bound
		}
		if r[i].Cost != r[j].Cost {
			return r[i].Cost < r[j].Cost
		}
		return r[i].V.Sig() < r[j].V.Sig()
	})
	return r
}
