// Package context is the shim of the standard context package: real contexts underneath, with the
// CancelFunc a scheduling point and Done() channels tracked as closed in the model.
package context

import (
	rc "context"

	"github.com/goptics/varmq/internal/vrt"
)

type Context = rc.Context
type CancelFunc = rc.CancelFunc

var Canceled = rc.Canceled
var DeadlineExceeded = rc.DeadlineExceeded

func Background() Context { return rc.Background() }
func TODO() Context       { return rc.TODO() }

func WithValue(parent Context, key, val any) Context { return rc.WithValue(parent, key, val) }

var reg []Context

func init() { vrt.ResetHooks = append(vrt.ResetHooks, func() { reg = reg[:0] }) }

//go:norace
func sweep() {
	for _, c := range reg {
		if c.Err() != nil {
			vrt.MarkClosed(c.Done())
		}
	}
}

//go:norace
func WithCancel(parent Context) (Context, CancelFunc) {
	ctx, cancel := rc.WithCancel(parent)
	if vrt.Skip() {
		return ctx, cancel
	}
	reg = append(reg, ctx)
	if ctx.Err() != nil {
		vrt.MarkClosed(ctx.Done())
	}
	return ctx, func() {
		if !vrt.Point(vrt.OpCancel, nil, nil) {
			return
		}
		cancel()
		sweep()
	}
}
