// Package sync is the API-compatible shim of the standard sync package used by the instrumented code.
package sync

import (
	"unsafe"

	"github.com/goptics/varmq/internal/vrt"
)

type Locker interface {
	Lock()
	Unlock()
}

type Mutex struct {
	held bool
	real rMutex
}

//go:norace
func (m *Mutex) Lock() {
	if vrt.Raw() {
		if m.held {
			vrt.RawConflict()
		}
		return
	}
	if !vrt.Point(vrt.OpLock, unsafe.Pointer(m), func() bool { return !m.held }) {
		return
	}
	m.held = true
	m.real.Lock()
}

//go:norace
func (m *Mutex) Unlock() {
	if vrt.Skip() || vrt.Raw() {
		return
	}
	if !m.held {
		panic("fatal error: sync: unlock of unlocked mutex")
	}
	m.held = false
	m.real.Unlock()
}

//go:norace
func (m *Mutex) TryLock() bool {
	if vrt.Raw() {
		vrt.RawConflict()
		return false
	}
	if !vrt.Point(vrt.OpLock, unsafe.Pointer(m), nil) {
		return false
	}
	if m.held {
		return false
	}
	m.held = true
	m.real.Lock()
	return true
}

type RWMutex struct {
	w    bool
	r    int
	real rRWMutex
}

//go:norace
func (m *RWMutex) Lock() {
	if vrt.Raw() {
		if m.w || m.r > 0 {
			vrt.RawConflict()
		}
		return
	}
	if !vrt.Point(vrt.OpLock, unsafe.Pointer(m), func() bool { return !m.w && m.r == 0 }) {
		return
	}
	m.w = true
	m.real.Lock()
}

//go:norace
func (m *RWMutex) Unlock() {
	if vrt.Skip() || vrt.Raw() {
		return
	}
	if !m.w {
		panic("fatal error: sync: Unlock of unlocked RWMutex")
	}
	m.w = false
	m.real.Unlock()
}

//go:norace
func (m *RWMutex) RLock() {
	if vrt.Raw() {
		if m.w {
			vrt.RawConflict()
		}
		return
	}
	if !vrt.Point(vrt.OpRLock, unsafe.Pointer(m), func() bool { return !m.w }) {
		return
	}
	m.r++
	m.real.RLock()
}

//go:norace
func (m *RWMutex) RUnlock() {
	if vrt.Skip() || vrt.Raw() {
		return
	}
	if m.r <= 0 {
		panic("fatal error: sync: RUnlock of unlocked RWMutex")
	}
	m.r--
	m.real.RUnlock()
}

//go:norace
func (m *RWMutex) TryLock() bool {
	if vrt.Raw() {
		vrt.RawConflict()
		return false
	}
	if !vrt.Point(vrt.OpLock, unsafe.Pointer(m), nil) {
		return false
	}
	if m.w || m.r > 0 {
		return false
	}
	m.w = true
	m.real.Lock()
	return true
}

//go:norace
func (m *RWMutex) TryRLock() bool {
	if vrt.Raw() {
		vrt.RawConflict()
		return false
	}
	if !vrt.Point(vrt.OpRLock, unsafe.Pointer(m), nil) {
		return false
	}
	if m.w {
		return false
	}
	m.r++
	m.real.RLock()
	return true
}

func (m *RWMutex) RLocker() Locker { return (*rlocker)(m) }

type rlocker RWMutex

func (r *rlocker) Lock()   { (*RWMutex)(r).RLock() }
func (r *rlocker) Unlock() { (*RWMutex)(r).RUnlock() }

type WaitGroup struct {
	n    int
	real rWaitGroup
}

//go:norace
func (wg *WaitGroup) Add(d int) {
	if vrt.Raw() {
		panic("vrt: WaitGroup.Add inside a monitor")
	}
	if !vrt.Point(vrt.OpWgAdd, unsafe.Pointer(wg), nil) {
		return
	}
	wg.n += d
	if wg.n < 0 {
		panic("sync: negative WaitGroup counter")
	}
	wg.real.Add(d)
}

//go:norace
func (wg *WaitGroup) Done() { wg.Add(-1) }

//go:norace
func (wg *WaitGroup) Wait() {
	if vrt.Raw() {
		panic("vrt: WaitGroup.Wait inside a monitor")
	}
	if !vrt.Point(vrt.OpWgWait, unsafe.Pointer(wg), func() bool { return wg.n == 0 }) {
		return
	}
	wg.real.Wait()
}

//go:norace
func (wg *WaitGroup) Go(f func()) {
	wg.Add(1)
	vrt.Go("WaitGroup.Go", "sync", func() {
		defer wg.Done()
		f()
	})
}

// Cond follows sync.Cond exactly: the ticket is taken while L is still held, so a Broadcast between the
// caller's condition check and Wait is lost, and one after the ticket is not.
type Cond struct {
	L       Locker
	waiters []*vrt.Thread
}

func NewCond(l Locker) *Cond { return &Cond{L: l} }

//go:norace
func (c *Cond) Wait() {
	if vrt.Raw() {
		panic("vrt: Cond.Wait inside a monitor")
	}
	if !vrt.Point(vrt.OpCondWait, unsafe.Pointer(c), nil) {
		return
	}
	t := vrt.Cur()
	t.Signalled = false
	c.waiters = append(c.waiters, t)
	c.L.Unlock()
	if !vrt.Point(vrt.OpCondBlocked, unsafe.Pointer(c), func() bool { return t.Signalled }) {
		return
	}
	c.L.Lock()
}

//go:norace
func (c *Cond) Broadcast() {
	if vrt.Raw() {
		panic("vrt: Cond.Broadcast inside a monitor")
	}
	if !vrt.Point(vrt.OpCondSignal, unsafe.Pointer(c), nil) {
		return
	}
	for _, t := range c.waiters {
		t.Signalled = true
	}
	c.waiters = nil
}

//go:norace
func (c *Cond) Signal() {
	if vrt.Raw() {
		panic("vrt: Cond.Signal inside a monitor")
	}
	if !vrt.Point(vrt.OpCondSignal, unsafe.Pointer(c), nil) {
		return
	}
	if len(c.waiters) > 0 {
		c.waiters[0].Signalled = true
		c.waiters = c.waiters[1:]
	}
}

type Once struct {
	done bool
	m    Mutex
	real rAtomic
}

//go:norace
func (o *Once) Do(f func()) {
	if !vrt.Point(vrt.OpOnce, unsafe.Pointer(o), nil) {
		return
	}
	o.real.Acquire()
	if o.done {
		return
	}
	o.m.Lock()
	defer o.m.Unlock()
	if !o.done {
		defer func() { o.done = true; o.real.Release() }()
		f()
	}
}

// Pool: Get returns the most recently Put item (choice 0) or, when pool choices are switched on for the
// scenario, calls New instead (choice 1) — both are behaviours the real pool may show at any time.
type Pool struct {
	New   func() any
	items []any
	real  rAtomic
}

//go:norace
func (p *Pool) Get() any {
	if !vrt.Point(vrt.OpPool, unsafe.Pointer(p), nil) {
		return nil
	}
	if n := len(p.items); n > 0 {
		drop := false
		if vrt.S.PoolChoice && p.New != nil {
			drop = vrt.Choose(2) == 1
		}
		if !drop {
			x := p.items[n-1]
			p.items = p.items[:n-1]
			p.real.Acquire()
			return x
		}
	}
	if p.New != nil {
		return p.New()
	}
	return nil
}

//go:norace
func (p *Pool) Put(x any) {
	if !vrt.Point(vrt.OpPool, unsafe.Pointer(p), nil) {
		return
	}
	p.real.Release()
	p.items = append(p.items, x)
}

// OnceFunc and friends are not used by the library; add when needed.
