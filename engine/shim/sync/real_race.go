//go:build race

package sync

import (
	rs "sync"
	ra "sync/atomic"
)

// In -race builds every shim also performs the real operation once the model says it cannot block, so the
// detector sees exactly the happens-before edges of the real program in the interleaving the explorer chose.
type rMutex = rs.Mutex
type rRWMutex = rs.RWMutex
type rWaitGroup = rs.WaitGroup

type rAtomic struct{ v ra.Uint32 }

//go:norace
func (a *rAtomic) Acquire() { a.v.Load() }

//go:norace
func (a *rAtomic) Release() { a.v.Add(1) }
