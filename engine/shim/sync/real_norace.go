//go:build !race

package sync

// In normal builds only the model exists.
type rMutex struct{}

func (*rMutex) Lock()   {}
func (*rMutex) Unlock() {}

type rRWMutex struct{}

func (*rRWMutex) Lock()    {}
func (*rRWMutex) Unlock()  {}
func (*rRWMutex) RLock()   {}
func (*rRWMutex) RUnlock() {}

type rWaitGroup struct{}

func (*rWaitGroup) Add(int) {}
func (*rWaitGroup) Wait()   {}

type rAtomic struct{}

func (*rAtomic) Acquire() {}
func (*rAtomic) Release() {}
