// Package time is the shim of the standard time package: a virtual clock and harness-armed tickers.
package time

import (
	rt "time"
	"unsafe"

	"github.com/goptics/varmq/internal/vrt"
)

type Duration = rt.Duration
type Time = rt.Time
type Month = rt.Month
type Weekday = rt.Weekday
type Location = rt.Location

const (
	Nanosecond  = rt.Nanosecond
	Microsecond = rt.Microsecond
	Millisecond = rt.Millisecond
	Second      = rt.Second
	Minute      = rt.Minute
	Hour        = rt.Hour
)

const (
	RFC3339     = rt.RFC3339
	RFC3339Nano = rt.RFC3339Nano
)

var UTC = rt.UTC

var epoch = rt.Unix(1_700_000_000, 0)

//go:norace
func Now() Time { return epoch.Add(Duration(vrt.Now())) }

//go:norace
func Since(t Time) Duration { return Now().Sub(t) }

//go:norace
func Until(t Time) Duration { return t.Sub(Now()) }

func Unix(sec, nsec int64) Time { return rt.Unix(sec, nsec) }

// Sleep advances the virtual clock and lets every other thread run first.
//
//go:norace
func Sleep(d Duration) {
	if vrt.Skip() {
		return
	}
	vrt.Advance(int64(d))
	vrt.Yield()
}

// Ticker: a ticker thread whose only operation, tick, advances the clock by d+1ns and does the
// non-blocking send into the real capacity-1 channel. Ticks are enabled only while the harness has
// armed them (vrt.Arm), so a scenario states how many periods may elapse and the explorer decides
// where each one lands.
type Ticker struct {
	C       <-chan Time
	c       chan Time
	d       Duration
	stopped bool
}

//go:norace
func NewTicker(d Duration) *Ticker {
	if d <= 0 {
		panic("non-positive interval for NewTicker")
	}
	c := make(chan Time, 1)
	t := &Ticker{C: c, c: c, d: d}
	if vrt.Skip() {
		return t
	}
	vrt.GoEnv("ticker", func() {
		for {
			if !vrt.Point(vrt.OpTick, unsafe.Pointer(t), func() bool { return vrt.S.Armed > 0 || t.stopped }) {
				return
			}
			if t.stopped {
				return
			}
			vrt.S.Armed--
			vrt.Advance(int64(t.d) + 1)
			select {
			case c <- Now():
			default:
			}
			vrt.Yield()
		}
	})
	return t
}

//go:norace
func (t *Ticker) Stop() { t.stopped = true }

//go:norace
func (t *Ticker) Reset(d Duration) {
	if d <= 0 {
		panic("non-positive interval for Ticker.Reset")
	}
	t.d = d
}
