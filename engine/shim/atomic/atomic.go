// Package atomic is the API-compatible shim of sync/atomic used by the instrumented code.
package atomic

import (
	"unsafe"

	"github.com/goptics/varmq/internal/vrt"
)

func pt(k vrt.OpKind, p unsafe.Pointer) bool { return vrt.Point(k, p, nil) }

type Uint32 struct {
	v uint32
	r rU32
}

//go:norace
func (x *Uint32) Load() uint32 { pt(vrt.OpAtomicLoad, unsafe.Pointer(x)); x.r.ld(); return x.v }

//go:norace
func (x *Uint32) Store(v uint32) {
	if !pt(vrt.OpAtomicStore, unsafe.Pointer(x)) {
		return
	}
	x.r.st()
	x.v = v
}

//go:norace
func (x *Uint32) Add(d uint32) uint32 {
	if !pt(vrt.OpAtomicRMW, unsafe.Pointer(x)) {
		return x.v
	}
	x.r.rmw()
	x.v += d
	return x.v
}

//go:norace
func (x *Uint32) Swap(v uint32) uint32 {
	if !pt(vrt.OpAtomicRMW, unsafe.Pointer(x)) {
		return x.v
	}
	x.r.rmw()
	o := x.v
	x.v = v
	return o
}

//go:norace
func (x *Uint32) CompareAndSwap(o, n uint32) bool {
	if !pt(vrt.OpAtomicRMW, unsafe.Pointer(x)) {
		return false
	}
	x.r.rmw()
	if x.v == o {
		x.v = n
		return true
	}
	return false
}

//go:norace
func (x *Uint32) And(m uint32) uint32 {
	if !pt(vrt.OpAtomicRMW, unsafe.Pointer(x)) {
		return x.v
	}
	x.r.rmw()
	o := x.v
	x.v &= m
	return o
}

//go:norace
func (x *Uint32) Or(m uint32) uint32 {
	if !pt(vrt.OpAtomicRMW, unsafe.Pointer(x)) {
		return x.v
	}
	x.r.rmw()
	o := x.v
	x.v |= m
	return o
}

type Int32 struct {
	v int32
	r rU32
}

//go:norace
func (x *Int32) Load() int32 { pt(vrt.OpAtomicLoad, unsafe.Pointer(x)); x.r.ld(); return x.v }

//go:norace
func (x *Int32) Store(v int32) {
	if !pt(vrt.OpAtomicStore, unsafe.Pointer(x)) {
		return
	}
	x.r.st()
	x.v = v
}

//go:norace
func (x *Int32) Add(d int32) int32 {
	if !pt(vrt.OpAtomicRMW, unsafe.Pointer(x)) {
		return x.v
	}
	x.r.rmw()
	x.v += d
	return x.v
}

//go:norace
func (x *Int32) Swap(v int32) int32 {
	if !pt(vrt.OpAtomicRMW, unsafe.Pointer(x)) {
		return x.v
	}
	x.r.rmw()
	o := x.v
	x.v = v
	return o
}

//go:norace
func (x *Int32) CompareAndSwap(o, n int32) bool {
	if !pt(vrt.OpAtomicRMW, unsafe.Pointer(x)) {
		return false
	}
	x.r.rmw()
	if x.v == o {
		x.v = n
		return true
	}
	return false
}

type Uint64 struct {
	v uint64
	r rU32
}

//go:norace
func (x *Uint64) Load() uint64 { pt(vrt.OpAtomicLoad, unsafe.Pointer(x)); x.r.ld(); return x.v }

//go:norace
func (x *Uint64) Store(v uint64) {
	if !pt(vrt.OpAtomicStore, unsafe.Pointer(x)) {
		return
	}
	x.r.st()
	x.v = v
}

//go:norace
func (x *Uint64) Add(d uint64) uint64 {
	if !pt(vrt.OpAtomicRMW, unsafe.Pointer(x)) {
		return x.v
	}
	x.r.rmw()
	x.v += d
	return x.v
}

//go:norace
func (x *Uint64) Swap(v uint64) uint64 {
	if !pt(vrt.OpAtomicRMW, unsafe.Pointer(x)) {
		return x.v
	}
	x.r.rmw()
	o := x.v
	x.v = v
	return o
}

//go:norace
func (x *Uint64) CompareAndSwap(o, n uint64) bool {
	if !pt(vrt.OpAtomicRMW, unsafe.Pointer(x)) {
		return false
	}
	x.r.rmw()
	if x.v == o {
		x.v = n
		return true
	}
	return false
}

type Int64 struct {
	v int64
	r rU32
}

//go:norace
func (x *Int64) Load() int64 { pt(vrt.OpAtomicLoad, unsafe.Pointer(x)); x.r.ld(); return x.v }

//go:norace
func (x *Int64) Store(v int64) {
	if !pt(vrt.OpAtomicStore, unsafe.Pointer(x)) {
		return
	}
	x.r.st()
	x.v = v
}

//go:norace
func (x *Int64) Add(d int64) int64 {
	if !pt(vrt.OpAtomicRMW, unsafe.Pointer(x)) {
		return x.v
	}
	x.r.rmw()
	x.v += d
	return x.v
}

//go:norace
func (x *Int64) Swap(v int64) int64 {
	if !pt(vrt.OpAtomicRMW, unsafe.Pointer(x)) {
		return x.v
	}
	x.r.rmw()
	o := x.v
	x.v = v
	return o
}

//go:norace
func (x *Int64) CompareAndSwap(o, n int64) bool {
	if !pt(vrt.OpAtomicRMW, unsafe.Pointer(x)) {
		return false
	}
	x.r.rmw()
	if x.v == o {
		x.v = n
		return true
	}
	return false
}

type Bool struct {
	v bool
	r rU32
}

//go:norace
func (x *Bool) Load() bool { pt(vrt.OpAtomicLoad, unsafe.Pointer(x)); x.r.ld(); return x.v }

//go:norace
func (x *Bool) Store(v bool) {
	if !pt(vrt.OpAtomicStore, unsafe.Pointer(x)) {
		return
	}
	x.r.st()
	x.v = v
}

//go:norace
func (x *Bool) Swap(v bool) bool {
	if !pt(vrt.OpAtomicRMW, unsafe.Pointer(x)) {
		return x.v
	}
	x.r.rmw()
	o := x.v
	x.v = v
	return o
}

//go:norace
func (x *Bool) CompareAndSwap(o, n bool) bool {
	if !pt(vrt.OpAtomicRMW, unsafe.Pointer(x)) {
		return false
	}
	x.r.rmw()
	if x.v == o {
		x.v = n
		return true
	}
	return false
}

type Value struct {
	v any
	r rU32
}

//go:norace
func (x *Value) Load() any { pt(vrt.OpAtomicLoad, unsafe.Pointer(x)); x.r.ld(); return x.v }

//go:norace
func (x *Value) Store(v any) {
	if v == nil {
		panic("sync/atomic: store of nil value into Value")
	}
	if !pt(vrt.OpAtomicStore, unsafe.Pointer(x)) {
		return
	}
	x.r.st()
	x.v = v
}

//go:norace
func (x *Value) Swap(v any) any {
	if !pt(vrt.OpAtomicRMW, unsafe.Pointer(x)) {
		return x.v
	}
	x.r.rmw()
	o := x.v
	x.v = v
	return o
}

//go:norace
func (x *Value) CompareAndSwap(o, n any) bool {
	if !pt(vrt.OpAtomicRMW, unsafe.Pointer(x)) {
		return false
	}
	x.r.rmw()
	if x.v == o {
		x.v = n
		return true
	}
	return false
}

type Pointer[T any] struct {
	v *T
	r rU32
}

//go:norace
func (x *Pointer[T]) Load() *T { pt(vrt.OpAtomicLoad, unsafe.Pointer(x)); x.r.ld(); return x.v }

//go:norace
func (x *Pointer[T]) Store(v *T) {
	if !pt(vrt.OpAtomicStore, unsafe.Pointer(x)) {
		return
	}
	x.r.st()
	x.v = v
}

//go:norace
func (x *Pointer[T]) Swap(v *T) *T {
	if !pt(vrt.OpAtomicRMW, unsafe.Pointer(x)) {
		return x.v
	}
	x.r.rmw()
	o := x.v
	x.v = v
	return o
}

//go:norace
func (x *Pointer[T]) CompareAndSwap(o, n *T) bool {
	if !pt(vrt.OpAtomicRMW, unsafe.Pointer(x)) {
		return false
	}
	x.r.rmw()
	if x.v == o {
		x.v = n
		return true
	}
	return false
}

// Function forms on plain words (unused by the library today; kept so that a change that introduces them
// still builds and is still scheduled).

//go:norace
func AddUint32(p *uint32, d uint32) uint32 {
	pt(vrt.OpAtomicRMW, unsafe.Pointer(p))
	return realAddU32(p, d)
}

//go:norace
func LoadUint32(p *uint32) uint32 { pt(vrt.OpAtomicLoad, unsafe.Pointer(p)); return realLoadU32(p) }

//go:norace
func StoreUint32(p *uint32, v uint32) { pt(vrt.OpAtomicStore, unsafe.Pointer(p)); realStoreU32(p, v) }

//go:norace
func CompareAndSwapUint32(p *uint32, o, n uint32) bool {
	pt(vrt.OpAtomicRMW, unsafe.Pointer(p))
	return realCasU32(p, o, n)
}

//go:norace
func AddInt32(p *int32, d int32) int32 { pt(vrt.OpAtomicRMW, unsafe.Pointer(p)); return realAddI32(p, d) }

//go:norace
func LoadInt32(p *int32) int32 { pt(vrt.OpAtomicLoad, unsafe.Pointer(p)); return realLoadI32(p) }

//go:norace
func StoreInt32(p *int32, v int32) { pt(vrt.OpAtomicStore, unsafe.Pointer(p)); realStoreI32(p, v) }

//go:norace
func CompareAndSwapInt32(p *int32, o, n int32) bool {
	pt(vrt.OpAtomicRMW, unsafe.Pointer(p))
	return realCasI32(p, o, n)
}

//go:norace
func AddUint64(p *uint64, d uint64) uint64 {
	pt(vrt.OpAtomicRMW, unsafe.Pointer(p))
	return realAddU64(p, d)
}

//go:norace
func LoadUint64(p *uint64) uint64 { pt(vrt.OpAtomicLoad, unsafe.Pointer(p)); return realLoadU64(p) }

//go:norace
func StoreUint64(p *uint64, v uint64) { pt(vrt.OpAtomicStore, unsafe.Pointer(p)); realStoreU64(p, v) }

//go:norace
func CompareAndSwapUint64(p *uint64, o, n uint64) bool {
	pt(vrt.OpAtomicRMW, unsafe.Pointer(p))
	return realCasU64(p, o, n)
}

//go:norace
func AddInt64(p *int64, d int64) int64 { pt(vrt.OpAtomicRMW, unsafe.Pointer(p)); return realAddI64(p, d) }

//go:norace
func LoadInt64(p *int64) int64 { pt(vrt.OpAtomicLoad, unsafe.Pointer(p)); return realLoadI64(p) }

//go:norace
func StoreInt64(p *int64, v int64) { pt(vrt.OpAtomicStore, unsafe.Pointer(p)); realStoreI64(p, v) }

//go:norace
func CompareAndSwapInt64(p *int64, o, n int64) bool {
	pt(vrt.OpAtomicRMW, unsafe.Pointer(p))
	return realCasI64(p, o, n)
}
