package atomic

import ra "sync/atomic"

// The function forms operate on the caller's own word with the real primitives (one thread runs at a
// time, so this is both the model and, in -race builds, the real edge).
func realAddU32(p *uint32, d uint32) uint32    { return ra.AddUint32(p, d) }
func realLoadU32(p *uint32) uint32             { return ra.LoadUint32(p) }
func realStoreU32(p *uint32, v uint32)         { ra.StoreUint32(p, v) }
func realCasU32(p *uint32, o, n uint32) bool   { return ra.CompareAndSwapUint32(p, o, n) }
func realAddI32(p *int32, d int32) int32       { return ra.AddInt32(p, d) }
func realLoadI32(p *int32) int32               { return ra.LoadInt32(p) }
func realStoreI32(p *int32, v int32)           { ra.StoreInt32(p, v) }
func realCasI32(p *int32, o, n int32) bool     { return ra.CompareAndSwapInt32(p, o, n) }
func realAddU64(p *uint64, d uint64) uint64    { return ra.AddUint64(p, d) }
func realLoadU64(p *uint64) uint64             { return ra.LoadUint64(p) }
func realStoreU64(p *uint64, v uint64)         { ra.StoreUint64(p, v) }
func realCasU64(p *uint64, o, n uint64) bool   { return ra.CompareAndSwapUint64(p, o, n) }
func realAddI64(p *int64, d int64) int64       { return ra.AddInt64(p, d) }
func realLoadI64(p *int64) int64               { return ra.LoadInt64(p) }
func realStoreI64(p *int64, v int64)           { ra.StoreInt64(p, v) }
func realCasI64(p *int64, o, n int64) bool     { return ra.CompareAndSwapInt64(p, o, n) }
