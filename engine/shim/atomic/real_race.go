//go:build race

package atomic

import ra "sync/atomic"

// Mirror word: load = acquire, store = release, read-modify-write = both — as the Go race runtime
// treats sync/atomic operations.
type rU32 struct{ w ra.Uint32 }

//go:norace
func (r *rU32) ld() { r.w.Load() }

//go:norace
func (r *rU32) st() { r.w.Store(1) }

//go:norace
func (r *rU32) rmw() { r.w.Add(1) }
