//go:build !race

package atomic

type rU32 struct{}

func (*rU32) ld()  {}
func (*rU32) st()  {}
func (*rU32) rmw() {}
