module litmus

go 1.23
