// native: runs the litmus programs with the real sync / atomic / context packages and checks that every
// outcome observed is in the allowed set and in the set the explorer enumerated (file given as argument).
package main

import (
	"encoding/json"
	"fmt"
	"os"
	"runtime"
	"sort"

	"litmus"
)

func main() {
	explored := map[string][]string{}
	if len(os.Args) > 1 {
		b, err := os.ReadFile(os.Args[1])
		if err != nil {
			fmt.Println("ERROR", err)
			os.Exit(2)
		}
		json.Unmarshal(b, &explored)
	}
	runtime.GOMAXPROCS(8)
	bad := 0
	total := 0
	for _, p := range litmus.Programs {
		if p.Hangs || p.ShimOnly {
			continue
		}
		seen := map[string]int{}
		for i := 0; i < 400; i++ {
			seen[p.Run()]++
			total++
			if i%16 == 0 {
				runtime.Gosched()
			}
		}
		in := func(set []string, s string) bool {
			for _, x := range set {
				if x == s {
					return true
				}
			}
			return false
		}
		var outs []string
		for o := range seen {
			outs = append(outs, o)
		}
		sort.Strings(outs)
		for _, o := range outs {
			if !in(p.Allowed, o) {
				fmt.Printf("LITMUS-MISMATCH %s: native outcome %q is not in the allowed set %v\n", p.Name, o, p.Allowed)
				bad++
			}
			if ex, ok := explored[p.Name]; ok && !in(ex, o) {
				fmt.Printf("LITMUS-MISMATCH %s: native outcome %q was not enumerated by the explorer %v\n", p.Name, o, ex)
				bad++
			}
		}
	}
	fmt.Printf("litmus native: %d runs, %d mismatches\n", total, bad)
	if bad > 0 {
		os.Exit(1)
	}
}
