// Package litmus holds tiny programs over sync, sync/atomic, context and channels. The same source is
// compiled natively (real packages) and, through vinst, against the shims: the explorer enumerates every
// schedule of each program and the set of outcomes must equal the hand-derived allowed set; every outcome
// observed natively must be in it too. This binds the only hand-written model (the shim layer) to Go.
package litmus

import (
	"context"
	"fmt"
	"sync"
	"sync/atomic"
)

// Program is one litmus test. Run returns an outcome string.
type Program struct {
	Name     string
	Run      func() string
	Allowed  []string // hand-derived set of allowed outcomes ("deadlock" = main never returns)
	Hangs    bool     // may deadlock: not run natively
	ShimOnly bool     // not meaningful natively (unrecoverable fatal error)
}

func catch(f func() string) (out string) {
	defer func() {
		if r := recover(); r != nil {
			out = fmt.Sprint("panic: ", r)
		}
	}()
	return f()
}

var Programs = []Program{
	{Name: "mutex-exclusion", Allowed: []string{"2"}, Run: func() string {
		var mu sync.Mutex
		var wg sync.WaitGroup
		x := 0
		for i := 0; i < 2; i++ {
			wg.Add(1)
			go func() { defer wg.Done(); mu.Lock(); v := x; x = v + 1; mu.Unlock() }()
		}
		wg.Wait()
		return fmt.Sprint(x)
	}},
	{Name: "atomic-lost-update", Allowed: []string{"1", "2"}, Run: func() string {
		var x atomic.Uint32
		var wg sync.WaitGroup
		for i := 0; i < 2; i++ {
			wg.Add(1)
			go func() { defer wg.Done(); x.Store(x.Load() + 1) }()
		}
		wg.Wait()
		return fmt.Sprint(x.Load())
	}},
	{Name: "atomic-add", Allowed: []string{"2"}, Run: func() string {
		var x atomic.Uint32
		var wg sync.WaitGroup
		for i := 0; i < 2; i++ {
			wg.Add(1)
			go func() { defer wg.Done(); x.Add(1) }()
		}
		wg.Wait()
		return fmt.Sprint(x.Load())
	}},
	{Name: "atomic-add-wraps", Allowed: []string{"0"}, Run: func() string {
		var x atomic.Uint32
		x.Add(1)
		return fmt.Sprint(x.Add(^uint32(0)))
	}},
	{Name: "cas-one-winner", Allowed: []string{"1"}, Run: func() string {
		var x, wins atomic.Uint32
		var wg sync.WaitGroup
		for i := 0; i < 2; i++ {
			wg.Add(1)
			go func() {
				defer wg.Done()
				if x.CompareAndSwap(0, 1) {
					wins.Add(1)
				}
			}()
		}
		wg.Wait()
		return fmt.Sprint(wins.Load())
	}},
	{Name: "store-buffering-sc", Allowed: []string{"0 1", "1 0", "1 1"}, Run: func() string {
		var x, y atomic.Uint32
		var r1, r2 uint32
		var wg sync.WaitGroup
		wg.Add(2)
		go func() { defer wg.Done(); x.Store(1); r1 = y.Load() }()
		go func() { defer wg.Done(); y.Store(1); r2 = x.Load() }()
		wg.Wait()
		return fmt.Sprint(r1, r2)
	}},
	{Name: "rwmutex-writer-atomic", Allowed: []string{"0 0", "1 1"}, Run: func() string {
		var mu sync.RWMutex
		a, b := 0, 0
		out := ""
		var wg sync.WaitGroup
		wg.Add(2)
		go func() { defer wg.Done(); mu.Lock(); a = 1; b = 1; mu.Unlock() }()
		go func() { defer wg.Done(); mu.RLock(); out = fmt.Sprint(a, b); mu.RUnlock() }()
		wg.Wait()
		return out
	}},
	{Name: "rwmutex-readers-share", Allowed: []string{"ok"}, Run: func() string {
		var mu sync.RWMutex
		in := make(chan struct{}, 1)
		done := make(chan struct{}, 1)
		mu.RLock()
		go func() { mu.RLock(); in <- struct{}{}; mu.RUnlock(); done <- struct{}{} }()
		<-in // the second reader got in while the first still holds the read lock
		mu.RUnlock()
		<-done
		return "ok"
	}},
	{Name: "cond-correct", Allowed: []string{"ok"}, Run: func() string {
		var mu sync.Mutex
		c := sync.NewCond(&mu)
		flag := false
		go func() { mu.Lock(); flag = true; mu.Unlock(); c.Broadcast() }()
		mu.Lock()
		for !flag {
			c.Wait()
		}
		mu.Unlock()
		return "ok"
	}},
	{Name: "cond-lost-wakeup", Hangs: true, Allowed: []string{"ok", "deadlock"}, Run: func() string {
		// the signaller does not take the lock: a Broadcast between the check and Wait is lost
		var mu sync.Mutex
		c := sync.NewCond(&mu)
		var flag atomic.Bool
		go func() { flag.Store(true); c.Broadcast() }()
		mu.Lock()
		for !flag.Load() {
			c.Wait()
		}
		mu.Unlock()
		return "ok"
	}},
	{Name: "cond-ticket-before-unlock", Allowed: []string{"ok"}, Run: func() string {
		// Wait takes its ticket while L is held: a Broadcast by anyone who acquired L afterwards is not lost
		var mu sync.Mutex
		c := sync.NewCond(&mu)
		mu.Lock()
		go func() { mu.Lock(); mu.Unlock(); c.Broadcast() }()
		c.Wait()
		mu.Unlock()
		return "ok"
	}},
	{Name: "cond-signal-one", Allowed: []string{"1"}, Run: func() string {
		// Signal wakes exactly one of two waiters; main waits for one completion only
		var mu sync.Mutex
		c := sync.NewCond(&mu)
		woke := make(chan int, 2)
		ready := make(chan struct{}, 2)
		for i := 0; i < 2; i++ {
			go func() { mu.Lock(); ready <- struct{}{}; c.Wait(); mu.Unlock(); woke <- 1 }()
		}
		<-ready
		<-ready
		mu.Lock() // both have taken their tickets once we hold the lock after their ready sends... (they are in Wait)
		mu.Unlock()
		c.Signal()
		n := <-woke
		return fmt.Sprint(n)
	}},
	{Name: "waitgroup-release", Allowed: []string{"2"}, Run: func() string {
		var wg sync.WaitGroup
		var n atomic.Uint32
		wg.Add(2)
		go func() { n.Add(1); wg.Done() }()
		go func() { n.Add(1); wg.Done() }()
		wg.Wait()
		return fmt.Sprint(n.Load())
	}},
	{Name: "waitgroup-negative", Allowed: []string{"panic: sync: negative WaitGroup counter"}, Run: func() string {
		return catch(func() string {
			var wg sync.WaitGroup
			wg.Add(1)
			wg.Done()
			wg.Done()
			return "no panic"
		})
	}},
	{Name: "waitgroup-many-waiters", Allowed: []string{"ok"}, Run: func() string {
		var wg, outer sync.WaitGroup
		wg.Add(1)
		outer.Add(2)
		for i := 0; i < 2; i++ {
			go func() { wg.Wait(); outer.Done() }()
		}
		wg.Done()
		outer.Wait()
		return "ok"
	}},
	{Name: "chan-buffered-order", Allowed: []string{"1 2"}, Run: func() string {
		ch := make(chan int, 1)
		go func() { ch <- 1; ch <- 2 }()
		a := <-ch
		b := <-ch
		return fmt.Sprint(a, b)
	}},
	{Name: "chan-closed-receive", Allowed: []string{"1 true 0 false"}, Run: func() string {
		ch := make(chan int, 1)
		ch <- 1
		close(ch)
		a, ok1 := <-ch
		b, ok2 := <-ch
		return fmt.Sprint(a, ok1, b, ok2)
	}},
	{Name: "chan-range-until-close", Allowed: []string{"3"}, Run: func() string {
		ch := make(chan int, 2)
		go func() { ch <- 1; ch <- 2; close(ch) }()
		s := 0
		for v := range ch {
			s += v
		}
		return fmt.Sprint(s)
	}},
	{Name: "chan-send-on-closed", Allowed: []string{"panic: send on closed channel"}, Run: func() string {
		return catch(func() string {
			ch := make(chan int, 1)
			close(ch)
			ch <- 1
			return "no panic"
		})
	}},
	{Name: "chan-close-closed", Allowed: []string{"panic: close of closed channel"}, Run: func() string {
		return catch(func() string {
			ch := make(chan int, 1)
			close(ch)
			close(ch)
			return "no panic"
		})
	}},
	{Name: "chan-close-nil", Allowed: []string{"panic: close of nil channel"}, Run: func() string {
		return catch(func() string {
			var ch chan int
			close(ch)
			return "no panic"
		})
	}},
	{Name: "chan-close-wakes-receiver", Allowed: []string{"0 false"}, Run: func() string {
		ch := make(chan int)
		go func() { close(ch) }()
		v, ok := <-ch
		return fmt.Sprint(v, ok)
	}},
	{Name: "select-default-nil", Allowed: []string{"default"}, Run: func() string {
		var ch chan int
		select {
		case ch <- 1:
			return "sent"
		default:
			return "default"
		}
	}},
	{Name: "select-default-full", Allowed: []string{"sent default"}, Run: func() string {
		ch := make(chan int, 1)
		out := ""
		for i := 0; i < 2; i++ {
			select {
			case ch <- i:
				out += "sent "
			default:
				out += "default"
			}
		}
		return out
	}},
	{Name: "select-send-closed-panics", Allowed: []string{"panic: send on closed channel"}, Run: func() string {
		return catch(func() string {
			ch := make(chan int, 1)
			close(ch)
			select {
			case ch <- 1:
				return "sent"
			default:
				return "default"
			}
		})
	}},
	{Name: "select-two-ready", Allowed: []string{"a", "b"}, Run: func() string {
		a := make(chan int, 1)
		b := make(chan int, 1)
		a <- 1
		b <- 1
		select {
		case <-a:
			return "a"
		case <-b:
			return "b"
		}
	}},
	{Name: "select-coalescing-signal", Allowed: []string{"1", "2"}, Run: func() string {
		// the dispatcher wake-up idiom: non-blocking sends into a 1-slot channel coalesce
		sig := make(chan struct{}, 1)
		done := make(chan int, 1)
		go func() {
			n := 0
			for range sig {
				n++
			}
			done <- n
		}()
		for i := 0; i < 2; i++ {
			select {
			case sig <- struct{}{}:
			default:
			}
		}
		close(sig)
		return fmt.Sprint(<-done)
	}},
	{Name: "once", Allowed: []string{"1"}, Run: func() string {
		var o sync.Once
		var n atomic.Uint32
		var wg sync.WaitGroup
		for i := 0; i < 2; i++ {
			wg.Add(1)
			go func() { defer wg.Done(); o.Do(func() { n.Add(1) }) }()
		}
		wg.Wait()
		return fmt.Sprint(n.Load())
	}},
	{Name: "message-passing", Allowed: []string{"1"}, Run: func() string {
		data := 0
		ch := make(chan struct{}, 1)
		go func() { data = 1; ch <- struct{}{} }()
		<-ch
		return fmt.Sprint(data)
	}},
	{Name: "context-cancel-propagates", Allowed: []string{"ok"}, Run: func() string {
		parent, cancel := context.WithCancel(context.Background())
		child, cancel2 := context.WithCancel(parent)
		defer cancel2()
		done := make(chan struct{}, 1)
		go func() { <-child.Done(); done <- struct{}{} }()
		cancel()
		<-done
		if child.Err() == nil {
			return "no error"
		}
		return "ok"
	}},
	{Name: "context-already-cancelled", Allowed: []string{"ok"}, Run: func() string {
		parent, cancel := context.WithCancel(context.Background())
		cancel()
		child, cancel2 := context.WithCancel(parent)
		defer cancel2()
		<-child.Done()
		return "ok"
	}},
	{Name: "context-cancel-twice", Allowed: []string{"ok"}, Run: func() string {
		ctx, cancel := context.WithCancel(context.Background())
		cancel()
		cancel()
		<-ctx.Done()
		return "ok"
	}},
	{Name: "mutex-trylock", Allowed: []string{"false", "true"}, Run: func() string {
		var mu sync.Mutex
		done := make(chan struct{}, 1)
		rel := make(chan struct{}, 1)
		go func() { mu.Lock(); done <- struct{}{}; <-rel; mu.Unlock() }()
		ok := mu.TryLock()
		if ok {
			mu.Unlock()
		}
		rel <- struct{}{}
		<-done
		return fmt.Sprint(ok)
	}},
	{Name: "mutex-deadlock-abba", Hangs: true, Allowed: []string{"ok", "deadlock"}, Run: func() string {
		var a, b sync.Mutex
		var wg sync.WaitGroup
		wg.Add(2)
		go func() { defer wg.Done(); a.Lock(); b.Lock(); b.Unlock(); a.Unlock() }()
		go func() { defer wg.Done(); b.Lock(); a.Lock(); a.Unlock(); b.Unlock() }()
		wg.Wait()
		return "ok"
	}},
	{Name: "unlock-unlocked", ShimOnly: true, Allowed: []string{"panic: fatal error: sync: unlock of unlocked mutex"}, Run: func() string {
		return catch(func() string {
			var mu sync.Mutex
			mu.Unlock()
			return "no panic"
		})
	}},
	{Name: "pool-get-after-put", Allowed: []string{"new", "same"}, Run: func() string {
		p := sync.Pool{New: func() any { return new(int) }}
		x := p.Get().(*int)
		p.Put(x)
		if p.Get().(*int) == x {
			return "same"
		}
		return "new"
	}},
	{Name: "atomic-value", Allowed: []string{"<nil>", "7"}, Run: func() string {
		var v atomic.Value
		done := make(chan struct{}, 1)
		go func() { v.Store(7); done <- struct{}{} }()
		r := fmt.Sprint(v.Load())
		<-done
		return r
	}},
}
