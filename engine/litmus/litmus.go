// Package litmus holds tiny programs over sync, sync/atomic, time, context and channels. The same source is
// compiled natively (real packages) and, through vinst, against the shims; the sets of outcomes must agree.
package litmus

// Program is one litmus test. Run returns an outcome string.
type Program struct {
	Name    string
	Run     func() string
	Allowed []string // hand-derived set of allowed outcomes
	Hangs   bool     // may deadlock (explorer reports "deadlock"; not run natively)
}

var Programs []Program
