package vharness

import (
	"fmt"
	"sort"

	"github.com/goptics/varmq/internal/queues"
	"github.com/goptics/varmq/internal/vrt"
)

// Scenario is a closed program (driver) that the explorer runs under every schedule within the bound.
type Scenario struct {
	Name     string   `json:"name"`
	Props    []string `json:"props"`    // properties this scenario is a check for
	Mode     string   `json:"mode"`     // PB / NB / DB
	Quick    int      `json:"quick"`    // bound for the quick tier
	Thorough int      `json:"thorough"` // bound for the thorough tier
	Shards   int      `json:"shards"`   // hint: 1 = small scenario, run in one process
	Race     bool     `json:"race"`     // part of the race-mode (C19) set
	Seq      bool     `json:"seq"`      // sequential enumeration (engine B): the body enumerates, bound 0
	Only     string   `json:"only"`     // "" = both tiers, else "quick" or "thorough"
	PoolChoice bool   `json:"pool_choice"`
	MaxSteps   int    `json:"max_steps"` // per-execution point cap (0 = default)
	Body     func(h *H) `json:"-"`
	SeqRun   func(r *SeqReport) `json:"-"`
}

var Registry []*Scenario
var byName = map[string]*Scenario{}

// thoroughShare keeps every single thorough check within tens of minutes: the heaviest thorough-only enumerations
// are each part of the thorough check of a few properties (those whose clauses they exercise most), not of all. What
// such a run observes for other properties is still counted in the evidence (other_property_observations).
func thoroughShare(name string, props []string) []string {
	keep := func(want ...string) []string {
		var out []string
		for _, p := range props {
			for _, w := range want {
				if p == w {
					out = append(out, p)
				}
			}
		}
		if len(out) == 0 {
			return props
		}
		return out
	}
	has := func(pre string) bool { return len(name) >= len(pre) && name[:len(pre)] == pre }
	switch {
	case has("seq-ops-nb1/plain-fifo/"):
		return keep("C01", "C03", "C09")
	case has("seq-ops-nb1/err-prio/"):
		return keep("C05", "C10", "C16")
	case has("seq-ops-nb1/res-fifo/"):
		return keep("C08", "C07", "C17")
	case has("seq-ops-nb1/plain-pers/"):
		return keep("C11", "C02", "C06")
	case has("seq-ops-seg/plain-fifo/seg1-2/"):
		return keep("C01", "C04", "C10")
	case has("seq-ops-seg/plain-fifo/seg2-3/"):
		return keep("C17", "C03", "C09")
	case has("seq-ops-seg/res-fifo/seg1-2/"):
		return keep("C05", "C08", "C16")
	case has("seq-ops-seg/res-fifo/seg2-3/"):
		return keep("C02", "C06", "C07", "C18")
	case has("seq-life/plain/"):
		return keep("C14", "C01", "C02")
	case has("seq-life/pending/"):
		return keep("C14", "C03", "C09")
	case has("seq-life/busy/"):
		return keep("C14", "C06", "C16")
	case has("seq-life/expiry+pending/"):
		return keep("C14", "C17", "C18")
	case has("seq-life/busy+expiry/"):
		return keep("C14", "C18", "C02")
	}
	return props
}

func Register(s *Scenario) {
	if byName[s.Name] != nil {
		panic("duplicate scenario " + s.Name)
	}
	if s.Only == "thorough" {
		s.Props = thoroughShare(s.Name, s.Props)
	}
	if s.Mode == "" {
		s.Mode = "PB"
	}
	if s.Shards == 0 {
		s.Shards = 1
	}
	byName[s.Name] = s
	Registry = append(Registry, s)
}

func Lookup(name string) *Scenario { return byName[name] }

func Sorted() []*Scenario {
	r := append([]*Scenario{}, Registry...)
	sort.Slice(r, func(i, j int) bool { return r[i].Name < r[j].Name })
	return r
}

// Instance makes a fresh instance of the scenario for one execution. keep receives the harness state of
// the execution (for samples and traces) and may be nil.
func (s *Scenario) Instance(keep func(h *H)) *vrt.Instance {
	h := NewH()
	in := &vrt.Instance{}
	in.Setup = func(sc *vrt.Sched) {
		sc.PoolChoice = s.PoolChoice
		if s.MaxSteps > 0 {
			sc.MaxSteps = s.MaxSteps
		}
		if !vrt.RaceMode && !h.NoMon {
			sc.Monitor = h.monitor
			sc.StateVec = h.stateVec
		}
	}
	in.Body = func() {
		queues.VrtSetCaps(1024, 100*1024)
		s.Body(h)
	}
	in.Check = func(x *vrt.Exec) ([]vrt.Violation, uint64) {
		v, hist := h.Judge(x)
		if keep != nil {
			keep(h)
		}
		return v, hist
	}
	return in
}

// stateVec is the scenario-independent abstract state used for the state-coverage fingerprint.
func (h *H) stateVec(buf []uint64) []uint64 {
	buf = append(buf, uint64(h.seq))
	for _, w := range h.Ws {
		if w.Wk == nil {
			continue
		}
		buf = append(buf, uint64(w.Wk.NumProcessing()), uint64(w.Wk.NumPending()+1), uint64(w.Wk.NumIdleWorkers()), uint64(w.Inflight), uint64(len(w.Wk.Status())))
	}
	for _, jr := range h.Jobs {
		if jr.St != nil {
			buf = append(buf, uint64(rank[jr.St.Status()]))
		}
	}
	return buf
}

func name(f string, a ...any) string { return fmt.Sprintf(f, a...) }

// all combinations of worker kind x in-memory/adapter queue kind that the API offers
type kindPair struct {
	W WK
	Q QK
}

func allKinds() []kindPair {
	return []kindPair{{Plain, Fifo}, {Plain, Prio}, {Plain, Pers}, {Plain, PersPrio}, {Plain, Dist}, {Plain, DistPrio},
		{ErrW, Fifo}, {ErrW, Prio}, {ResW, Fifo}, {ResW, Prio}}
}

func memKinds() []kindPair {
	return []kindPair{{Plain, Fifo}, {Plain, Prio}, {ErrW, Fifo}, {ErrW, Prio}, {ResW, Fifo}, {ResW, Prio}}
}

func (p kindPair) String() string { return p.W.String() + "-" + p.Q.String() }
