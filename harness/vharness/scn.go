package vharness

import (
	"fmt"
	"sort"

	"github.com/goptics/varmq/internal/queues"
	"github.com/goptics/varmq/internal/vrt"
)

// Scenario is a closed program (driver) that the explorer runs under every schedule within the bound.
type Scenario struct {
	Name     string   `json:"name"`
	Props    []string `json:"props"`    // properties this scenario is a check for
	Mode     string   `json:"mode"`     // PB / NB / DB
	Quick    int      `json:"quick"`    // bound for the quick tier
	Thorough int      `json:"thorough"` // bound for the thorough tier
	Shards   int      `json:"shards"`   // hint: 1 = small scenario, run in one process
	Race     bool     `json:"race"`     // part of the race-mode (C19) set
	Seq      bool     `json:"seq"`      // sequential enumeration (engine B): the body enumerates, bound 0
	Only     string   `json:"only"`     // "" = both tiers, else "quick" or "thorough"
	PoolChoice bool   `json:"pool_choice"`
	MaxSteps   int    `json:"max_steps"` // per-execution point cap (0 = default)
	Body     func(h *H) `json:"-"`
	SeqRun   func(r *SeqReport) `json:"-"`
}

var Registry []*Scenario
var byName = map[string]*Scenario{}

func Register(s *Scenario) {
	if byName[s.Name] != nil {
		panic("duplicate scenario " + s.Name)
	}
	if s.Mode == "" {
		s.Mode = "PB"
	}
	if s.Shards == 0 {
		s.Shards = 1
	}
	byName[s.Name] = s
	Registry = append(Registry, s)
}

func Lookup(name string) *Scenario { return byName[name] }

func Sorted() []*Scenario {
	r := append([]*Scenario{}, Registry...)
	sort.Slice(r, func(i, j int) bool { return r[i].Name < r[j].Name })
	return r
}

// Instance makes a fresh instance of the scenario for one execution. keep receives the harness state of
// the execution (for samples and traces) and may be nil.
func (s *Scenario) Instance(keep func(h *H)) *vrt.Instance {
	h := NewH()
	in := &vrt.Instance{}
	in.Setup = func(sc *vrt.Sched) {
		sc.PoolChoice = s.PoolChoice
		if s.MaxSteps > 0 {
			sc.MaxSteps = s.MaxSteps
		}
		if !vrt.RaceMode && !h.NoMon {
			sc.Monitor = h.monitor
			sc.StateVec = h.stateVec
		}
	}
	in.Body = func() {
		queues.VrtSetCaps(1024, 100*1024)
		s.Body(h)
	}
	in.Check = func(x *vrt.Exec) ([]vrt.Violation, uint64) {
		v, hist := h.Judge(x)
		if keep != nil {
			keep(h)
		}
		return v, hist
	}
	return in
}

// stateVec is the scenario-independent abstract state used for the state-coverage fingerprint.
func (h *H) stateVec(buf []uint64) []uint64 {
	buf = append(buf, uint64(h.seq))
	for _, w := range h.Ws {
		if w.Wk == nil {
			continue
		}
		buf = append(buf, uint64(w.Wk.NumProcessing()), uint64(w.Wk.NumPending()+1), uint64(w.Wk.NumIdleWorkers()), uint64(w.Inflight), uint64(len(w.Wk.Status())))
	}
	for _, jr := range h.Jobs {
		if jr.St != nil {
			buf = append(buf, uint64(rank[jr.St.Status()]))
		}
	}
	return buf
}

func name(f string, a ...any) string { return fmt.Sprintf(f, a...) }

// all combinations of worker kind x in-memory/adapter queue kind that the API offers
type kindPair struct {
	W WK
	Q QK
}

func allKinds() []kindPair {
	return []kindPair{{Plain, Fifo}, {Plain, Prio}, {Plain, Pers}, {Plain, PersPrio}, {Plain, Dist}, {Plain, DistPrio},
		{ErrW, Fifo}, {ErrW, Prio}, {ResW, Fifo}, {ResW, Prio}}
}

func memKinds() []kindPair {
	return []kindPair{{Plain, Fifo}, {Plain, Prio}, {ErrW, Fifo}, {ErrW, Prio}, {ResW, Fifo}, {ResW, Prio}}
}

func (p kindPair) String() string { return p.W.String() + "-" + p.Q.String() }
