package vharness

import (
	"fmt"
	"os"

	"github.com/goptics/varmq/internal/queues"

	"github.com/goptics/varmq/internal/vrt"
)

// Engine B, operation sequences on a live worker (all properties with generic clauses): every sequence of API calls
// up to a depth over the alphabet below, on a worker with concurrency 2 and gated jobs. Each call runs in its own
// thread (a call that has to wait for in-flight work simply stays pending until a later step releases it), the system
// comes to rest after every step (canonical schedule), and the whole oracle suite judges the execution: every-point
// monitors, rest counts after each step, interval clauses, final judgement. The epilogue opens every gate and ends with a
// Restart that runs alone, after which every accepted job that was not cancelled must have run exactly once and every
// handle must have completed.
//
//	A Add              B AddAll of two items   O open the gate of the oldest executing job
//	P Pause            W PauseAndWait          R Resume        S Stop       T Restart
//	U TunePool(3)      D TunePool(1)           X Purge         C Close the handle of the youngest job
//	Q Close the queue  F WaitUntilFinished
const opsAlphabet = "AOPWRSTUDXCBQF"

// runOps2 is runOps on a worker with two bound queues (the second of kind q2k): lower-case a / x submit to / purge the
// second queue, G binds a third queue (of the first one's kind) late and submits a job through it.
func runOps2(kp kindPair, q2k QK, ops string) []vrt.Violation { return runOpsX(kp, q2k, true, ops) }

func runOps(kp kindPair, ops string) []vrt.Violation { return runOpsX(kp, Fifo, false, ops) }

func runOpsX(kp kindPair, q2k QK, two bool, ops string) []vrt.Violation {
	in := opsInstance(kp, q2k, two, ops)
	x := vrt.Run(nil, nil, in.Setup, in.Body)
	if x.EngineErr != "" {
		return []vrt.Violation{{Prop: "engine", Clause: "engine", Detail: x.EngineErr}}
	}
	v, _ := in.Check(x)
	return v
}

// opsInstance is one fresh instance of the closed program "this call sequence on a fresh worker", for one execution:
// under the canonical schedule (runOpsX) or under every schedule within a deviation bound (enumOpsNB).
var dumpEvents bool

// opsCfg: concurrency and FIFO segment capacities of the worker that the call sequences drive (0 = defaults: 2, real).
type opsCfg struct{ conc, c0, c1 int }

func opsInstance(kp kindPair, q2k QK, two bool, ops string) *vrt.Instance {
	return opsInstanceCfg(kp, q2k, two, ops, opsCfg{})
}

func opsInstanceCfg(kp kindPair, q2k QK, two bool, ops string, cfg opsCfg) *vrt.Instance {
	h := NewH()
	h.Shape = Gated
	h.CrashProp, h.HangProp = "C03", "C03"
	h.Beh[1], h.Beh[3] = BErr, BPanic
	in := &vrt.Instance{}
	in.Setup = func(sc *vrt.Sched) { sc.Monitor = h.monitor }
	in.Check = func(x *vrt.Exec) ([]vrt.Violation, uint64) {
		v, hist := h.Judge(x)
		if dumpEvents {
			for _, e := range h.Events {
				fmt.Fprintf(os.Stderr, "%d t%d %s %s j%d %s\n", e.Seq, e.T, e.K, e.Op, e.Job, e.Res)
			}
			for _, vv := range v {
				fmt.Fprintln(os.Stderr, "VIOL", vv.Clause, vv.Detail)
			}
		}
		return v, hist
	}
	in.Body = func() {
		conc := 2
		if cfg.conc > 0 {
			conc = cfg.conc
		}
		if cfg.c0 > 0 {
			queues.VrtSetCaps(cfg.c0, cfg.c1)
		} else {
			queues.VrtSetCaps(1024, 100*1024)
		}
		w := h.NewWorker(kp.W, conc)
		q := w.Bind(kp.Q, nil)
		var q2, q3 *Q
		if two {
			q2 = w.Bind(q2k, nil)
		}
		tag := 0
		waitOn := func(j *JobRec) {
			if !j.Accepted {
				return
			}
			go func() {
				switch {
				case j.ResF != nil:
					h.Result(j)
				case j.ErrF != nil:
					h.Err(j)
				default:
					h.Wait(j)
				}
			}()
		}
		for i := 0; i < len(ops); i++ {
			switch ops[i] {
			case 'A':
				if kp.Q.IsAdapter() {
					q.Add(tag, AddOpt{Prio: tag % 2})
				} else {
					waitOn(q.Add(tag, AddOpt{Prio: tag % 2}))
				}
				tag++
			case 'a':
				if q2k.IsAdapter() {
					q2.Add(tag, AddOpt{Prio: tag % 2})
				} else {
					waitOn(q2.Add(tag, AddOpt{Prio: tag % 2}))
				}
				tag++
			case 'x':
				go func() { q2.Purge() }()
			case 'G':
				if q3 == nil {
					q3 = w.Bind(kp.Q, nil)
				}
				if kp.Q.IsAdapter() {
					q3.Add(tag, AddOpt{})
				} else {
					waitOn(q3.Add(tag, AddOpt{}))
				}
				tag++
			case 'B':
				if kp.Q.IsAdapter() {
					continue
				}
				b := q.AddAll([]int{tag, tag + 1}, []int{1, 0})
				tag += 2
				if b.Results != nil || b.Errs != nil {
					go func() { h.ReadStream(b) }()
				}
				go func() { h.BatchWait(b) }()
			case 'O':
				old := -1
				for _, jr := range h.Jobs {
					if jr.inWF() && (old < 0 || jr.Starts[0] < h.jobByTag[old].Starts[0]) && !h.opened[jr.Tag] {
						old = jr.Tag
					}
				}
				if old >= 0 {
					h.opened[old] = true
					h.Open(old)
				}
			case 'P':
				go func() { w.Pause() }()
			case 'W':
				go func() { w.PauseAndWait() }()
			case 'R':
				go func() { w.Resume() }()
			case 'S':
				go func() { w.Stop() }()
			case 'T':
				go func() { w.Restart() }()
			case 'U':
				go func() { w.TunePool(3) }()
			case 'D':
				go func() { w.TunePool(1) }()
			case 'X':
				go func() { q.Purge() }()
			case 'C':
				for k := len(h.Jobs) - 1; k >= 0; k-- {
					if jr := h.Jobs[k]; jr.H != nil && jr.Batch == nil {
						go func() { h.CloseJob(jr) }()
						break
					}
				}
			case 'Q':
				go func() { q.Close() }()
			case 'F':
				go func() { w.WaitUntilFinished() }()
			}
			h.Quiesce(false)
		}
		// epilogue
		for t := 0; t < tag+4; t++ {
			h.Open(t)
		}
		h.Quiesce(false)
		w.Restart()
		h.End()
	}
	return in
}

// enumOpsNB: every sequence of the given length, each explored under every schedule with at most `bound` non-default
// choices (the explorer of engine A run per sequence): combinations of calls x interleavings.
func enumOpsNB(r *SeqReport, label string, mk func(ops string) *vrt.Instance, alphabet string, depth, bound int, prefix string) {
	seen := map[string]bool{}
	var rec func(s string)
	rec = func(s string) {
		if len(s) == depth {
			e := &vrt.Explorer{New: func() *vrt.Instance { return mk(s) }, Mode: vrt.NB, NShards: 1}
			st := e.RunBound(bound)
			r.Traces++
			r.States += st.Execs
			r.Transitions += st.Transitions
			if e.EngineErr != "" || !st.Completed {
				r.Notes = append(r.Notes, "ENGINE: "+e.EngineErr+" ("+label+" ops="+s+")")
				r.Exhaustive = false
			}
			for _, f := range e.FoundSorted() {
				key := f.V.Clause + "|" + f.V.Detail
				if !seen[key] && len(r.V) < 40 {
					seen[key] = true
					r.V = append(r.V, SeqViolation{f.V.Prop, f.V.Clause, f.V.Detail, fmt.Sprintf("%s ops=%s schedule=%v", label, s, f.Choices)})
				}
			}
			return
		}
		for i := 0; i < len(alphabet); i++ {
			rec(s + string(alphabet[i]))
		}
	}
	rec(prefix)
	if depth > r.MaxDepth {
		r.MaxDepth = depth
	}
	r.Distinct = r.States
}

func enumOps(r *SeqReport, kp kindPair, alphabet string, depth int, prefix string) {
	enumOpsWith(r, kp.String(), func(s string) []vrt.Violation { return runOps(kp, s) }, alphabet, depth, prefix)
}

// OPS_ONLY=<sequence> restricts an enumeration to one sequence (replay of a reported case).
func enumOpsWith(r *SeqReport, label string, run func(string) []vrt.Violation, alphabet string, depth int, prefix string) {
	if only := os.Getenv("OPS_ONLY"); only != "" {
		if len(only) != depth || only[:len(prefix)] != prefix {
			return
		}
		dumpEvents = true
		vs := run(only)
		dumpEvents = false
		r.Traces++
		for _, v := range vs {
			r.V = append(r.V, SeqViolation{v.Prop, v.Clause, v.Detail, label + " ops=" + only})
		}
		return
	}
	seen := map[string]bool{}
	var rec func(s string)
	rec = func(s string) {
		if len(s) == depth {
			r.Traces++
			r.States++
			r.Transitions += int64(len(s))
			vs := run(s)
			cs := fmt.Sprintf("%s ops=%s", label, s)
			for _, v := range vs {
				if v.Prop == "engine" {
					r.Notes = append(r.Notes, "ENGINE: "+v.Detail+" ("+cs+")")
					r.Exhaustive = false
					continue
				}
				key := v.Clause + "|" + v.Detail
				if !seen[key] && len(r.V) < 40 {
					seen[key] = true
					r.V = append(r.V, SeqViolation{v.Prop, v.Clause, v.Detail, cs})
				}
			}
			if len(vs) == 0 && len(r.Samples) < 2 && r.Traces%977 == 1 {
				r.Samples = append(r.Samples, cs)
			}
			return
		}
		for i := 0; i < len(alphabet); i++ {
			rec(s + string(alphabet[i]))
		}
	}
	rec(prefix)
	if depth > r.MaxDepth {
		r.MaxDepth = depth
	}
	r.Distinct = r.States
}

var opsProps = []string{"C01", "C02", "C03", "C04", "C05", "C06", "C07", "C08", "C09", "C10", "C16", "C17", "C18"}

func init() {
	for _, kp := range []kindPair{{Plain, Fifo}, {ErrW, Prio}, {ResW, Fifo}, {Plain, Pers}} {
		kp := kp
		for i := 0; i < len(opsAlphabet); i++ {
			first := string(opsAlphabet[i])
			for _, d := range []int{3, 4} {
				d := d
				only := "quick"
				if d == 4 {
					only = "thorough"
				}
				Register(&Scenario{
					Name: fmt.Sprintf("seq-ops-nb1/%s/d%d/%s", kp, d, first), Props: opsPropsFor(kp), Seq: true, Only: only,
					SeqRun: func(r *SeqReport) {
						r.Exhaustive = true
						enumOpsNB(r, kp.String(), func(s string) *vrt.Instance { return opsInstance(kp, Fifo, false, s) }, opsAlphabet, d, 1, first)
						r.Notes = append(r.Notes, fmt.Sprintf("every sequence of %d API calls starting with %s over the alphabet %s, each under every schedule with at most one non-default choice (states = executions), judged by the whole oracle suite", d, first, opsAlphabet))
					},
				})
			}
		}
	}
}

// seq-ops-seg: the call sequences on a worker with concurrency 1 whose FIFO segments hold 1 and 2 (2 and 3) items, so
// that exhausted read segments, full write segments and their reuse after Purge / queue Close are reached within a few calls.
func init() {
	for _, kp := range []kindPair{{Plain, Fifo}, {ResW, Fifo}} {
		for _, caps := range [][2]int{{1, 2}, {2, 3}} {
			kp, caps := kp, caps
			label := fmt.Sprintf("%s/seg%d-%d", kp, caps[0], caps[1])
			for i := 0; i < len(opsAlphabet); i++ {
				first := string(opsAlphabet[i])
				for _, d := range []int{4, 6} {
					d := d
					only := "quick"
					if d == 6 {
						only = "thorough"
					}
					if d == 4 && caps[0] == 2 {
						d = 5 // (2,3): the first boundary needs one call more
					}
					Register(&Scenario{
						Name: fmt.Sprintf("seq-ops-seg/%s/d%d/%s", label, d, first), Props: opsProps, Seq: true, Only: only,
						SeqRun: func(r *SeqReport) {
							r.Exhaustive = true
							enumOpsWith(r, label, func(s string) []vrt.Violation {
								in := opsInstanceCfg(kp, Fifo, false, s, opsCfg{1, caps[0], caps[1]})
								x := vrt.Run(nil, nil, in.Setup, in.Body)
								if x.EngineErr != "" {
									return []vrt.Violation{{Prop: "engine", Clause: "engine", Detail: x.EngineErr}}
								}
								v, _ := in.Check(x)
								return v
							}, opsAlphabet, d, first)
							r.Notes = append(r.Notes, fmt.Sprintf("every sequence of %d API calls starting with %s, concurrency 1, FIFO segment capacities (%d,%d)", d, first, caps[0], caps[1]))
						},
					})
				}
			}
		}
	}
}

const opsAlphabet2 = "AaOPWRSTUDXxCQFG"

func init() {
	type mq struct {
		kp  kindPair
		q2k QK
	}
	for _, m := range []mq{{kindPair{Plain, Fifo}, Prio}, {kindPair{ResW, Prio}, Fifo}, {kindPair{Plain, Fifo}, Pers}} {
		m := m
		label := fmt.Sprintf("%s+%s", m.kp, m.q2k)
		props := append(append([]string{}, opsProps...), "C15")
		if m.q2k.IsAdapter() {
			props = append(props, "C11")
		}
		for i := 0; i < len(opsAlphabet2); i++ {
			first := string(opsAlphabet2[i])
			for _, d := range []int{4, 5} {
				d := d
				only := "quick"
				if d == 5 {
					only = "thorough"
				}
				Register(&Scenario{
					Name: fmt.Sprintf("seq-ops2/%s/d%d/%s", label, d, first), Props: props, Seq: true, Only: only,
					SeqRun: func(r *SeqReport) {
						r.Exhaustive = true
						enumOpsWith(r, label, func(s string) []vrt.Violation { return runOps2(m.kp, m.q2k, s) }, opsAlphabet2, d, first)
						r.Notes = append(r.Notes, fmt.Sprintf("every sequence of %d API calls starting with %s over the alphabet %s on a worker with two bound queues (a third bound late by G), judged by the whole oracle suite", d, first, opsAlphabet2))
					},
				})
			}
		}
	}
}

// opsPropsFor: on adapter-backed queues the suite also judges the acknowledgement clauses (C11) and, on the
// distributed ones, the drain / notification clauses (C13).
func opsPropsFor(kp kindPair) []string {
	p := append([]string{}, opsProps...)
	if kp.Q.IsAdapter() {
		p = append(p, "C11")
		if kp.Q == Dist || kp.Q == DistPrio {
			p = append(p, "C13")
		}
	}
	return p
}

// d6Props: the depth-6 enumeration of one worker kind (196 shards, 7.5 million sequences) is part of the thorough check
// of a third of the properties each, to keep every single thorough check within tens of minutes.
func d6Props(ki int) []string {
	var out []string
	for i, p := range opsProps {
		if i%3 == ki {
			out = append(out, p)
		}
	}
	return out
}

func init() {
	for ki, kp := range []kindPair{{Plain, Fifo}, {ErrW, Prio}, {ResW, Fifo}, {Plain, Pers}, {Plain, DistPrio}} {
		ki, kp := ki, kp
		// every sequence of the given length is a maximal one of its own (shorter ones are its prefixes, observed at
		// the rest after each step)
		for i := 0; i < len(opsAlphabet); i++ {
			first := string(opsAlphabet[i])
			for _, d := range []int{4, 5} {
				d := d
				only := "quick"
				if d == 5 {
					only = "thorough"
				}
				Register(&Scenario{
					Name: fmt.Sprintf("seq-ops/%s/d%d/%s", kp, d, first), Props: opsPropsFor(kp), Seq: true, Only: only,
					SeqRun: func(r *SeqReport) {
						r.Exhaustive = true
						enumOps(r, kp, opsAlphabet, d, first)
						r.Notes = append(r.Notes, fmt.Sprintf("every sequence of %d API calls starting with %s over the alphabet %s (concurrency 2, gated jobs, rest after every call), judged by the whole oracle suite", d, first, opsAlphabet))
					},
				})
			}
		}
		// depth 6 in the thorough tier, one shard per two-call prefix (in-memory kinds)
		for i := 0; i < len(opsAlphabet) && ki < 3; i++ {
			for k := 0; k < len(opsAlphabet); k++ {
				pre := string(opsAlphabet[i]) + string(opsAlphabet[k])
				Register(&Scenario{
					Name: fmt.Sprintf("seq-ops/%s/d6/%s", kp, pre), Props: d6Props(ki), Seq: true, Only: "thorough",
					SeqRun: func(r *SeqReport) {
						r.Exhaustive = true
						enumOps(r, kp, opsAlphabet, 6, pre)
						r.Notes = append(r.Notes, fmt.Sprintf("every sequence of 6 API calls starting with %s over the alphabet %s", pre, opsAlphabet))
					},
				})
			}
		}
	}
}
