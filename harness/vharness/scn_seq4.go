package vharness

import (
	"fmt"
	"sort"

	"github.com/goptics/varmq/internal/queues"
	"github.com/goptics/varmq/internal/vrt"
)

// Engine B, worker over a small-segment queue (C01, C17, C04): every sequence of submissions, drains (let the
// system come to rest), pauses, resumes and purges up to a depth, with the FIFO queue's segment capacities set
// to small values so that segment boundaries, exhausted segments and reuse after a purge are all reached. The
// oracle uses only facts that do not depend on the schedule: at rest NumPending is the number of accepted jobs
// neither started nor cancelled; at the end (Resume, rest) every accepted job not cancelled by a purge ran exactly
// once, and (concurrency 1, one producer) the jobs ran in acceptance order.

const segOps = "ADPRXQ"

type cd struct{ clause, detail string }

// runSegSeq returns every clause violated by the sequence (one entry per clause), so that the check of each
// property sees its own clauses whatever else went wrong.
func runSegSeq(kp kindPair, c0, c1 int, ops string) (out []cd) {
	add := func(clause, detail string) {
		for _, o := range out {
			if o.clause == clause {
				return
			}
		}
		out = append(out, cd{clause, detail})
	}
	h := NewH()
	h.Shape = Instant
	h.CrashProp, h.HangProp = "C01", "C01"
	// the whole oracle suite judges the sequence as well (every-point monitors, rest counts, final judgement)
	x := vrt.Run(nil, nil, func(sc *vrt.Sched) { sc.Monitor = h.monitor }, func() {
		queues.VrtSetCaps(c0, c1)
		w := h.NewWorker(kp.W, 1)
		q := w.Bind(kp.Q, nil)
		tag := 0
		rest := func(when string) {
			h.Quiesce(true)
			want := 0
			for _, jr := range h.Jobs {
				if jr.Accepted && len(jr.Starts) == 0 && !(jr.St != nil && jr.St.Status() == "Closed") {
					want++
				}
			}
			if n := q.Base.NumPending(); n != want {
				add("C17.seq-pending", fmt.Sprintf("at rest %s the queue reports NumPending()=%d with %d accepted jobs neither started nor cancelled", when, n, want))
			}
			if n := w.Wk.NumPending(); n != want {
				add("C17.seq-pending", fmt.Sprintf("at rest %s the worker reports NumPending()=%d with %d accepted jobs neither started nor cancelled", when, n, want))
			}
			if w.Wk.IsRunning() && want > 0 {
				add("C01.seq-stuck", "a running worker at rest leaves an accepted job unstarted")
			}
		}
		for i := 0; i < len(ops); i++ {
			switch ops[i] {
			case 'A':
				q.Add(tag, AddOpt{})
				tag++
			case 'D':
				rest("after a drain")
			case 'P':
				w.PauseAndWait()
			case 'R':
				w.Resume()
			case 'X':
				q.Purge()
				rest("after a purge")
			case 'Q':
				q.Close() // later submissions are rejected; what is pending still runs
				rest("after the queue's Close")
			}
		}
		if w.Wk.IsPaused() {
			w.Resume()
		}
		rest("at the end")
		type st struct{ tag, at int }
		var got []st
		for _, jr := range h.Jobs {
			if !jr.Accepted {
				if len(jr.Starts) > 0 {
					add("C01.seq-rejected-ran", "a submission rejected by the closed queue was executed")
				}
				continue
			}
			closed := jr.St != nil && jr.St.Status() == "Closed" && len(jr.Starts) == 0
			switch {
			case len(jr.Starts) > 1:
				add("C01.seq-twice", "a job ran twice")
			case len(jr.Starts) == 0 && !closed:
				add("C01.seq-lost", "an accepted job that was not cancelled never ran")
			case len(jr.Starts) == 0 && len(h.Purges) == 0:
				add("C01.seq-lost", "a job was cancelled although nothing was purged")
			case len(jr.Starts) == 1:
				got = append(got, st{jr.Tag, jr.Starts[0]})
			}
		}
		sort.Slice(got, func(i, j int) bool { return got[i].at < got[j].at })
		for i := 1; i < len(got); i++ {
			if got[i].tag < got[i-1].tag {
				add("C04.seq-order", "jobs of one producer on a concurrency-1 worker did not run in acceptance order")
			}
		}
		h.End()
	})
	if x.EngineErr == "" {
		h.Judge(x)
		for _, v := range h.V {
			add(v.Clause, v.Detail)
		}
	}
	if x.Crash != "" {
		add("C01.crash", firstLine(x.Crash)+" @ "+x.CrashFrame)
	}
	if x.EngineErr != "" {
		return []cd{{"engine", x.EngineErr}}
	}
	if x.UserBlocked > 0 {
		add("C01.hang", "a call never returned")
	}
	return out
}

func enumSegSeq(r *SeqReport, kp kindPair, c0, c1 int, alphabet string, depth int, prefix string) {
	seen := map[string]bool{}
	var rec func(s string)
	rec = func(s string) {
		if len(s) > 0 && (s[len(s)-1] == 'D' || s[len(s)-1] == 'X' || s[len(s)-1] == 'Q' || len(s) == depth) {
			// (a sequence is judged when it ends in an observing operation or is maximal)
			r.Traces++
			r.States++
			r.Transitions += int64(len(s))
			res := runSegSeq(kp, c0, c1, s)
			cs := fmt.Sprintf("%s segment capacities (%d,%d) ops=%s", kp, c0, c1, s)
			if len(res) == 1 && res[0].clause == "engine" {
				r.Notes = append(r.Notes, "ENGINE: "+res[0].detail)
				r.Exhaustive = false
			} else if len(res) > 0 {
				for _, v := range res {
					key := v.clause + "|" + collapseDigits(v.detail)
					if !seen[key] && len(r.V) < 30 {
						seen[key] = true
						r.V = append(r.V, SeqViolation{v.clause[:3], v.clause, v.detail, cs})
					}
				}
				return // diverged: do not extend
			} else if len(r.Samples) < 2 && len(s) == depth {
				r.Samples = append(r.Samples, cs)
			}
		}
		if len(s) > r.MaxDepth {
			r.MaxDepth = len(s)
		}
		if len(s) == depth {
			return
		}
		for i := 0; i < len(alphabet); i++ {
			rec(s + string(alphabet[i]))
		}
	}
	rec(prefix)
	r.Distinct = r.States
}

func init() {
	for _, kp := range []kindPair{{Plain, Fifo}, {ResW, Fifo}, {ErrW, Prio}} {
		kp := kp
		Register(&Scenario{
			Name: "seq-segment/" + kp.String() + "/q", Props: []string{"C01", "C17", "C04", "C03", "C09", "C10", "C16"}, Seq: true, Only: "quick",
			SeqRun: func(r *SeqReport) {
				r.Exhaustive = true
				enumSegSeq(r, kp, 2, 3, "AD", 10, "")
				enumSegSeq(r, kp, 2, 3, segOps, 6, "")
				enumSegSeq(r, kp, 1, 2, segOps, 5, "")
				r.Notes = append(r.Notes, "every sequence over {Add, Drain} up to length 10 and over {Add, Drain, PauseAndWait, Resume, Purge, queue Close} up to length 6, FIFO segment capacities (2,3) and (1,2)")
			},
		})
		for i := 0; i < len(segOps); i++ {
			first := string(segOps[i])
			Register(&Scenario{
				Name: "seq-segment/" + kp.String() + "/d9/" + first, Props: []string{"C01", "C17", "C04", "C03", "C09", "C10", "C16"}, Seq: true, Only: "thorough",
				SeqRun: func(r *SeqReport) {
					r.Exhaustive = true
					enumSegSeq(r, kp, 2, 3, segOps, 9, first)
					if first == "A" {
						enumSegSeq(r, kp, 2, 3, "AD", 14, "")
						enumSegSeq(r, kp, 3, 4, "AD", 14, "")
					}
					r.Notes = append(r.Notes, "every sequence over {Add, Drain, PauseAndWait, Resume, Purge} of length <= 9 starting with "+first+", FIFO segment capacities (2,3)")
				},
			})
		}
	}
}
