package vharness

import (
	"context"
	"fmt"
	"strings"
	"time"

	varmq "github.com/goptics/varmq"
	"github.com/goptics/varmq/internal/vrt"
)

// Engine B on the worker: every lifecycle call sequence up to a depth against the reference machine (C14),
// and every small multi-queue population against the reference selector (C15). Each case is one execution
// on a fresh worker under the canonical schedule, with a quiescence after every call.

var lifeOps = []string{"Bind:fifo", "Bind:prio", "Pause", "PauseAndWait", "Resume", "Stop", "WaitAndStop", "Restart", "Tune2", "Tune1", "WUF", "Cancel"}

type lifeCfg struct {
	ctx, expiry, pending bool
	// busy: concurrency 2, gated jobs. A job is kept in flight whenever the worker is running (the gates are opened
	// before a call that waits for in-flight work), and a job is submitted whenever the worker is paused: a worker
	// that reports Running must use its free slot for a pending job (C14: never Running while unable to process).
	busy bool
}

func (c lifeCfg) String() string {
	s := ""
	for _, p := range []struct {
		b bool
		n string
	}{{c.ctx, "ctx"}, {c.expiry, "expiry"}, {c.pending, "pending"}, {c.busy, "busy"}} {
		if p.b {
			s += "+" + p.n
		}
	}
	if s == "" {
		return "plain"
	}
	return s[1:]
}

// runLife runs one call sequence; it returns a violation (clause, detail) or "".
// With no context configured every sequence is in addition judged by the generic oracle suite (every-point monitors,
// interval clauses, rest counts): extra receives what it reports, each clause under its own property.
func runLife(cfg lifeCfg, seq []string, states map[string]struct{}) (clause, detail string, extra []vrt.Violation) {
	h := NewH()
	judge := !cfg.ctx
	h.NoMon = !judge
	h.CrashProp, h.HangProp = "C14", "C14"
	var cancel context.CancelFunc
	setup := func(sc *vrt.Sched) {
		if judge {
			sc.Monitor = h.monitor
		}
	}
	defer func() {
		if judge && clause != "engine" {
			seen := map[string]bool{}
			for _, v := range h.V {
				if !seen[v.Clause] && v.Clause != clause {
					seen[v.Clause] = true
					extra = append(extra, v)
				}
			}
		}
	}()
	var x *vrt.Exec
	defer func() {
		if judge && x != nil && x.EngineErr == "" {
			h.Judge(x)
		}
	}()
	x = vrt.Run(nil, nil, setup, func() {
		var opts []any
		if cfg.ctx {
			var ctx context.Context
			ctx, cancel = context.WithCancel(context.Background())
			opts = append(opts, varmq.WithContext(ctx))
		}
		if cfg.expiry {
			opts = append(opts, varmq.WithIdleWorkerExpiryDuration(time.Second))
		}
		conc := 1
		if cfg.busy {
			conc = 2
			h.Shape = Gated
		}
		w := h.NewWorker(Plain, conc, opts...)
		ref, limit := "Initiated", conc
		var q *Q
		tag := 0
		inflight := func() int {
			n := 0
			for _, jr := range h.Jobs {
				if len(jr.Starts) > len(jr.Ends) {
					n++
				}
			}
			return n
		}
		for i, op := range seq {
			var err error
			want := "nil"
			if cfg.busy {
				switch op {
				case "PauseAndWait", "Stop", "WaitAndStop", "Restart", "WUF":
					// these wait for in-flight work: let it finish
					for t := 0; t < tag; t++ {
						h.Open(t)
					}
				}
			}
			switch {
			case strings.HasPrefix(op, "Bind"):
				k := Fifo
				if op == "Bind:prio" {
					k = Prio
				}
				nq := w.Bind(k, nil)
				if q == nil {
					q = nq
				}
				ref, _ = refStep(ref, op)
				if cfg.pending && tag < 2 {
					q.Add(tag, AddOpt{})
					tag++
				}
			case op == "Tune2" || op == "Tune1":
				n := 2
				if op == "Tune1" {
					n = 1
				}
				err = w.TunePool(n)
				switch {
				case ref != "Running":
					want = "ErrNotRunningWorker"
				case n == limit:
					want = "ErrSameConcurrency"
				default:
					limit = n
				}
			case op == "WUF":
				w.WaitUntilFinished()
			case op == "Cancel":
				cancel()
				ref, _ = refStep(ref, op)
			default:
				switch op {
				case "Pause":
					err = w.Pause()
				case "PauseAndWait":
					err = w.PauseAndWait()
				case "Resume":
					err = w.Resume()
				case "Stop":
					err = w.Stop()
				case "WaitAndStop":
					err = w.WaitAndStop()
				case "Restart":
					err = w.Restart()
				}
				ref, want = refStep(ref, op)
			}
			vrt.Quiesce()
			got := errStr(err)
			st := w.Wk.Status()
			states[fmt.Sprintf("%s|%s|%d|%d|%d|%d", ref, st, w.Wk.NumPending(), w.Wk.NumIdleWorkers(), w.Wk.NumConcurrency(), vrt.LiveLib(""))] = struct{}{}
			pre := "Initiated"
			if i > 0 {
				pre = "after " + seq[i-1]
			}
			_ = pre
			if got != want {
				clause, detail = "C14.error", fmt.Sprintf("%s on a worker in reference state %s returned %s, documented %s", op, prevRef(seq[:i], cfg), got, want)
				return
			}
			if st != ref {
				clause, detail = "C14.status", fmt.Sprintf("%s on a worker in reference state %s left Status()=%s, documented %s", op, prevRef(seq[:i], cfg), st, ref)
				return
			}
			if w.Wk.IsRunning() != (ref == "Running") || w.Wk.IsPaused() != (ref == "Paused") || w.Wk.IsStopped() != (ref == "Stopped") {
				clause, detail = "C14.predicates", "IsRunning/IsPaused/IsStopped disagree with Status() "+st
				return
			}
			{
				// the limit changes with a successful TunePool only (Restart, Stop, Pause ... keep it)
				if n := w.Wk.NumConcurrency(); n != limit {
					clause, detail = "C14.tune", fmt.Sprintf("NumConcurrency()=%d after %s (%s), documented %d", n, op, got, limit)
					return
				}
			}
			if cfg.busy && q != nil {
				if ref == "Running" {
					waiting := 0
					for _, jr := range h.Jobs {
						if jr.Accepted && len(jr.Starts) == 0 {
							waiting++
						}
					}
					if waiting > 0 && inflight() < limit {
						clause, detail = "C14.running-stuck", fmt.Sprintf("the worker reports Running at rest after %s with a free slot and a pending job that it does not dispatch", lastOps(seq[:i+1]))
						return
					}
					if inflight() == 0 && tag < 12 {
						q.Add(tag, AddOpt{})
						tag++
						vrt.Quiesce()
					}
				} else if ref == "Paused" && tag < 12 {
					q.Add(tag, AddOpt{})
					tag++
					vrt.Quiesce() // the dispatcher consumes the submission's wake-up while the worker is paused
				}
			}
		}
		// probe: a job submitted now runs iff the reference state is Running
		if q != nil {
			for t := 0; t < 100; t++ {
				h.Open(t)
			}
			p := q.Add(99, AddOpt{})
			vrt.Quiesce()
			ran := len(p.Starts) > 0
			if ref == "Running" && !ran {
				clause, detail = "C14.probe", "the worker reports "+w.Wk.Status()+" after "+lastOps(seq)+" but does not process a submitted job"
				return
			}
			if ref != "Running" && ran {
				clause, detail = "C14.probe-ran", "a "+ref+" worker processed a submitted job after "+lastOps(seq)
				return
			}
			// jobs accepted earlier must have run if the worker was ever running afterwards
			if ref == "Running" {
				for _, jr := range h.Jobs {
					if jr.Accepted && len(jr.Starts) == 0 {
						clause, detail = "C14.pending-lost", "a running worker left an earlier accepted job unprocessed after "+lastOps(seq)
						return
					}
				}
			}
		}
		if judge {
			h.End()
		} else {
			h.Final = true
		}
	})
	if clause != "" {
		return
	}
	if x.Crash != "" {
		return "C14.crash", firstLine(x.Crash) + " @ " + x.CrashFrame, nil
	}
	if x.EngineErr != "" {
		return "engine", x.EngineErr, nil
	}
	if x.UserBlocked > 0 {
		return "C14.hang", "a lifecycle call never returned after " + lastOps(seq), nil
	}
	return "", "", nil
}

func firstLine(s string) string {
	if i := strings.Index(s, "\n"); i > 0 {
		s = s[:i]
	}
	if len(s) > 90 {
		s = s[:90]
	}
	return s
}

func lastOps(seq []string) string {
	if len(seq) > 2 {
		seq = seq[len(seq)-2:]
	}
	return strings.Join(seq, ";")
}

// prevRef replays the reference machine over a prefix.
func prevRef(seq []string, cfg lifeCfg) string {
	ref := "Initiated"
	for _, op := range seq {
		switch op {
		case "Tune1", "Tune2", "WUF":
		default:
			ref, _ = refStep(ref, op)
		}
	}
	return ref
}

func enumLife(r *SeqReport, cfg lifeCfg, depth int, first string) {
	states := map[string]struct{}{}
	seen := map[string]bool{}
	var rec func(seq []string)
	rec = func(seq []string) {
		if len(seq) > 0 {
			r.Traces++
			r.Transitions += int64(len(seq))
			cl, det, extra := runLife(cfg, seq, states)
			for _, v := range extra {
				k := v.Clause + "|" + collapseDigits(v.Detail)
				if !seen[k] && len(r.V) < 60 {
					seen[k] = true
					r.V = append(r.V, SeqViolation{v.Prop, v.Clause, v.Detail, cfg.String() + ": " + strings.Join(seq, " ")})
				}
			}
			if cl == "engine" {
				r.Notes = append(r.Notes, "ENGINE: "+det)
				r.Exhaustive = false
				return
			}
			if cl != "" {
				k := cl + "|" + det
				if !seen[k] && len(r.V) < 60 {
					seen[k] = true
					r.V = append(r.V, SeqViolation{"C14", cl, det, cfg.String() + ": " + strings.Join(seq, " ")})
				}
				return // implementation and reference have diverged: do not extend
			}
			if len(r.Samples) < 3 && len(seq) == depth {
				r.Samples = append(r.Samples, cfg.String()+": "+strings.Join(seq, " "))
			}
		}
		if len(seq) > r.MaxDepth {
			r.MaxDepth = len(seq)
		}
		if len(seq) == depth {
			return
		}
		for _, op := range lifeOps {
			if op == "Cancel" && !cfg.ctx {
				continue
			}
			if len(seq) > 0 && seq[len(seq)-1] == "Cancel" {
				continue // Cancel is terminal
			}
			if len(seq) == 0 && first != "" && op != first {
				continue
			}
			rec(append(append([]string{}, seq...), op))
		}
	}
	rec(nil)
	r.States += int64(len(states))
	r.Distinct += int64(len(states))
}

// ---- C15: strategies ---------------------------------------------------------------------------------------------

var stratNames = map[varmq.Strategy]string{varmq.RoundRobin: "RoundRobin", varmq.MaxLen: "MaxLen", varmq.MinLen: "MinLen"}

// runStrategy: kinds[i] is the kind of the i-th bound queue, pop[i] its initial population. late = index of a
// queue that receives one more job while the first job is executing (-1: none).
// stratExtra receives what the generic oracle suite reports on the last runStrategy execution (each clause under its own
// property); the enumerations add it to their reports.
var stratExtra []vrt.Violation

func runStrategy(strat varmq.Strategy, kinds []QK, pop []int, late int) (clause, detail string) {
	h := NewH()
	h.Shape = Gated
	h.CrashProp, h.HangProp = "C15", "C15"
	stratExtra = nil
	var x *vrt.Exec
	defer func() {
		if x != nil && x.EngineErr == "" {
			h.Judge(x)
			stratExtra = append(stratExtra, h.V...)
		}
	}()
	var order []int // queue index of each started job
	x = vrt.Run(nil, nil, func(sc *vrt.Sched) { sc.Monitor = h.monitor }, func() {
		w := h.NewWorker(Plain, 1, varmq.WithStrategy(strat))
		var qs []*Q
		for _, k := range kinds {
			qs = append(qs, w.Bind(k, nil))
		}
		w.PauseAndWait()
		tag := 0
		qOf := map[int]int{}
		cur := make([]int, len(kinds))
		for i, n := range pop {
			for k := 0; k < n; k++ {
				qs[i].Add(tag, AddOpt{Prio: k})
				qOf[tag] = i
				tag++
			}
			cur[i] = n
		}
		total := tag
		sum := 0
		for _, q := range qs {
			sum += q.Base.NumPending()
		}
		if wp := w.Wk.NumPending(); wp != sum || sum != total {
			with := ""
			for _, k := range kinds {
				if k == PersPrio {
					with = " with a persistent-priority queue bound"
				}
			}
			_ = wp
			clause, detail = "C15.pending-sum", "the worker's NumPending() differs from the sum over its queues"+with
			return
		}
		w.Resume()
		rr := 0
		started := map[int]bool{}
		for step := 0; ; step++ {
			vrt.Quiesce()
			// which job started?
			now := -1
			for _, jr := range h.Jobs {
				if len(jr.Starts) > 0 && !started[jr.Tag] {
					if now >= 0 {
						clause, detail = "C15.two-started", "two jobs were dispatched at concurrency 1"
						return
					}
					now = jr.Tag
				}
			}
			if now < 0 {
				break
			}
			started[now] = true
			qi := qOf[now]
			order = append(order, qi)
			// reference selector on the populations at the dequeue
			switch strat {
			case varmq.RoundRobin:
				want := -1
				for k := 0; k < len(cur); k++ {
					c := (rr + k) % len(cur)
					if cur[c] > 0 {
						want = c
						break
					}
				}
				if qi != want {
					clause, detail = "C15.roundrobin", "RoundRobin did not dispatch from the next non-empty queue in binding order"
					return
				}
				rr = (want + 1) % len(cur)
			case varmq.MaxLen:
				mx := 0
				for _, c := range cur {
					mx = max(mx, c)
				}
				if cur[qi] != mx {
					clause, detail = "C15.maxlen", "MaxLen dispatched from a queue that did not hold the most pending jobs"
					return
				}
			case varmq.MinLen:
				mn := 1 << 30
				for _, c := range cur {
					if c > 0 {
						mn = min(mn, c)
					}
				}
				if cur[qi] != mn {
					clause, detail = "C15.minlen", "MinLen dispatched from a queue that did not hold the fewest pending jobs among the non-empty ones"
					return
				}
			}
			cur[qi]--
			if step == 0 && late >= 0 {
				qs[late].Add(tag, AddOpt{Prio: 9})
				qOf[tag] = late
				cur[late]++
				tag++
				total++
			}
			h.Open(now)
		}
		if len(order) != total {
			clause, detail = "C15.starved", "not every pending job was dispatched: a queue with pending jobs was starved"
			return
		}
		h.End()
	})
	if clause != "" {
		return
	}
	if x.Crash != "" {
		return "C15.crash", firstLine(x.Crash) + " @ " + x.CrashFrame
	}
	if x.EngineErr != "" {
		return "engine", x.EngineErr
	}
	if x.Livelock != "" {
		return "C15.starved", "queues with pending jobs are starved: " + x.Livelock
	}
	if x.UserBlocked > 0 {
		return "C15.hang", "the scenario thread blocked"
	}
	return "", ""
}

func kindNames(k []QK) string {
	var s []string
	for _, x := range k {
		s = append(s, x.String())
	}
	return strings.Join(s, ",")
}

func enumStrategy(r *SeqReport, kmax, pmax int, kindSet []QK) {
	seen := map[string]bool{}
	states := map[string]struct{}{}
	for _, strat := range []varmq.Strategy{varmq.RoundRobin, varmq.MaxLen, varmq.MinLen} {
		for k := 1; k <= kmax; k++ {
			kinds := make([]QK, k)
			var recK func(i int)
			recK = func(i int) {
				if i == k {
					pop := make([]int, k)
					var recP func(j int)
					recP = func(j int) {
						if j == k {
							for late := -1; late < k; late++ {
								tot := 0
								for _, p := range pop {
									tot += p
								}
								if tot == 0 || (late >= 0 && tot > 4) {
									continue
								}
								r.Traces++
								r.Transitions += int64(tot + 1)
								cl, det := runStrategy(strat, kinds, pop, late)
								for _, v := range stratExtra {
									if k := v.Clause + "|" + v.Detail; !seen[k] && len(r.V) < 40 {
										seen[k] = true
										r.V = append(r.V, SeqViolation{v.Prop, v.Clause, v.Detail, fmt.Sprintf("%s kinds=%s pop=%v late=%d", stratNames[strat], kindNames(kinds), pop, late)})
									}
								}
								cs := fmt.Sprintf("%s kinds=%s pop=%v late=%d", stratNames[strat], kindNames(kinds), pop, late)
								states[fmt.Sprintf("%d|%v|%d", strat, pop, late)] = struct{}{}
								if cl == "engine" {
									r.Notes = append(r.Notes, "ENGINE: "+det)
									r.Exhaustive = false
									continue
								}
								if cl != "" {
									key := cl + "|" + det
									if !seen[key] && len(r.V) < 40 {
										seen[key] = true
										r.V = append(r.V, SeqViolation{"C15", cl, det, cs})
									}
								} else if len(r.Samples) < 3 && tot >= 3 {
									r.Samples = append(r.Samples, cs)
								}
							}
							return
						}
						for p := 0; p <= pmax; p++ {
							pop[j] = p
							recP(j + 1)
						}
					}
					recP(0)
					return
				}
				for _, kd := range kindSet {
					kinds[i] = kd
					recK(i + 1)
				}
			}
			recK(0)
		}
	}
	r.States += int64(len(states))
	r.Distinct += int64(len(states))
	r.MaxDepth = kmax*pmax + 1
}

// lifeProps: the configurations without a context are judged by the whole oracle suite, so they are part of the
// checks of every property whose clauses the suite can report on them.
func lifeProps(cfg lifeCfg) []string {
	if cfg.ctx {
		return []string{"C14"}
	}
	return []string{"C14", "C01", "C02", "C03", "C06", "C09", "C16", "C17", "C18"}
}

func init() {
	cfgs := []lifeCfg{{}, {pending: true}, {ctx: true, pending: true}, {ctx: true, expiry: true}, {busy: true}, {expiry: true, pending: true}, {busy: true, expiry: true}}
	for _, cfg := range cfgs {
		cfg := cfg
		for _, first := range lifeOps {
			first := first
			if first == "Cancel" && !cfg.ctx {
				continue
			}
			for _, d := range []int{4, 6} {
				d := d
				only := "quick"
				if d == 6 {
					only = "thorough"
				}
				Register(&Scenario{
					Name: fmt.Sprintf("seq-life/%s/d%d/%s", cfg, d, first), Props: lifeProps(cfg), Seq: true, Only: only,
					SeqRun: func(r *SeqReport) {
						r.Exhaustive = true
						enumLife(r, cfg, d, first)
						r.Notes = append(r.Notes, fmt.Sprintf("all lifecycle call sequences of depth <= %d starting with %s over %d calls, config %s, probe job after each sequence", d, first, len(lifeOps), cfg))
					},
				})
			}
		}
	}
	allQ := []QK{Fifo, Prio, Pers, PersPrio, Dist}
	Register(&Scenario{
		Name: "seq-strategy/k2", Props: []string{"C15", "C17", "C01", "C03", "C09", "C11", "C13"}, Seq: true, Only: "quick",
		SeqRun: func(r *SeqReport) {
			r.Exhaustive = true
			enumStrategy(r, 2, 2, allQ)
			r.Notes = append(r.Notes, "3 strategies x up to 2 queues of 5 kinds x populations 0..2 x one optional interleaved submission")
		},
	})
	Register(&Scenario{
		Name: "seq-strategy/k3", Props: []string{"C15", "C17", "C01", "C03"}, Seq: true, Only: "quick",
		SeqRun: func(r *SeqReport) {
			r.Exhaustive = true
			enumStrategy(r, 3, 2, []QK{Fifo, Prio})
			r.Notes = append(r.Notes, "3 strategies x up to 3 queues (fifo, prio) x populations 0..2 x one optional interleaved submission")
		},
	})
	for _, first := range allQ {
		first := first
		Register(&Scenario{
			Name: "seq-strategy/k3full/" + first.String(), Props: []string{"C15", "C17", "C01", "C03", "C09", "C11", "C13"}, Seq: true, Only: "thorough",
			SeqRun: func(r *SeqReport) {
				r.Exhaustive = true
				// three queues, first kind fixed per shard, populations 0..3
				seen := map[string]bool{}
				for _, strat := range []varmq.Strategy{varmq.RoundRobin, varmq.MaxLen, varmq.MinLen} {
					for _, k2 := range allQ {
						for _, k3 := range allQ {
							kinds := []QK{first, k2, k3}
							for p := 0; p < 64; p++ {
								pop := []int{p & 3, (p >> 2) & 3, (p >> 4) & 3}
								if pop[0]+pop[1]+pop[2] == 0 {
									continue
								}
								r.Traces++
								r.Transitions += int64(pop[0] + pop[1] + pop[2])
								cl, det := runStrategy(strat, kinds, pop, -1)
								for _, v := range stratExtra {
									if k := v.Clause + "|" + v.Detail; !seen[k] && len(r.V) < 40 {
										seen[k] = true
										r.V = append(r.V, SeqViolation{v.Prop, v.Clause, v.Detail, fmt.Sprintf("%s kinds=%s pop=%v", stratNames[strat], kindNames(kinds), pop)})
									}
								}
								if cl != "" && cl != "engine" && !seen[cl+det] && len(r.V) < 40 {
									seen[cl+det] = true
									r.V = append(r.V, SeqViolation{"C15", cl, det, fmt.Sprintf("%s kinds=%s pop=%v", stratNames[strat], kindNames(kinds), pop)})
								}
								if cl == "" && len(r.Samples) < 2 && p == 27 {
									r.Samples = append(r.Samples, fmt.Sprintf("%s kinds=%s pop=%v", stratNames[strat], kindNames(kinds), pop))
								}
							}
						}
					}
				}
				r.States, r.Distinct, r.MaxDepth = r.Traces, r.Traces, 9
			},
		})
	}
}
