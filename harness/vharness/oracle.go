package vharness

import (
	"fmt"
	"sort"
	"strings"

	"github.com/goptics/varmq/internal/vrt"
)

// ---------------------------------------------------------------------------------------------
// reference lifecycle machine (documented behaviour, see DESIGN.md §4 C14)

func refStep(state, op string) (next string, wantErr string) {
	switch {
	case strings.HasPrefix(op, "Bind"):
		if state == "Initiated" {
			return "Running", "nil"
		}
		return state, "nil"
	case op == "Pause" || op == "PauseAndWait":
		switch state {
		case "Running":
			return "Paused", "nil"
		case "Paused", "Stopped":
			return state, "nil"
		}
		return state, "ErrNotRunningWorker"
	case op == "Resume":
		switch state {
		case "Paused", "Initiated":
			return "Running", "nil"
		case "Running":
			return state, "ErrRunningWorker"
		}
		return state, "ErrNotRunningWorker"
	case op == "Stop" || op == "WaitAndStop":
		switch state {
		case "Running", "Paused":
			return "Stopped", "nil"
		case "Stopped":
			return state, "nil"
		}
		return state, "ErrNotRunningWorker"
	case op == "Restart":
		return "Running", "nil"
	case op == "Cancel":
		if state == "Running" || state == "Paused" {
			return "Stopped", "nil"
		}
		return state, "nil"
	}
	return state, ""
}

// refAfter advances the reference state of the worker when a control call returns. Calls that overlap
// another state-changing call on the same worker make the reference state unknown ("?") until a Restart
// that runs alone.
func (h *H) refAfter(c *Ctl) {
	w := c.W
	if w == nil {
		return
	}
	if _, e := refStep("Running", c.Op); e == "" {
		return // not a lifecycle call
	}
	for _, o := range h.Ctls {
		if o == c || o.W != w {
			continue
		}
		if _, e := refStep("Running", o.Op); e == "" {
			continue
		}
		if !o.Done || o.Ret > c.Call {
			w.RefState = "?"
			return
		}
	}
	if w.RefState == "?" {
		if c.Op == "Restart" && c.Err == nil {
			w.RefState = "Running"
		}
		return
	}
	w.RefState, _ = refStep(w.RefState, c.Op)
}

// ---------------------------------------------------------------------------------------------
// helpers over the log

func (w *W) maxLimit(from, to int) int {
	m := 0
	for i, lc := range w.Limits {
		end := int(^uint(0) >> 1)
		if i+1 < len(w.Limits) {
			end = w.Limits[i+1].Seq - 1
		}
		if lc.Seq <= to && end >= from && lc.Val > m {
			m = lc.Val
		}
	}
	return m
}

func (w *W) maxLimitEver() int {
	m := 0
	for _, lc := range w.Limits {
		if lc.Val > m {
			m = lc.Val
		}
	}
	return m
}

func (w *W) curLimit() int { return w.Limits[len(w.Limits)-1].Val }

func (jr *JobRec) inWF() bool { return len(jr.Starts) > len(jr.Ends) }

// nilClose returns the first Close call on the job that returned nil.
func (jr *JobRec) nilClose() *CloseRec {
	for _, c := range jr.Closes {
		if c.Done && c.Err == nil {
			return c
		}
	}
	return nil
}

func (jr *JobRec) anyClose() bool { return len(jr.Closes) > 0 }

// maybePurged: some Purge call on the job's queue had begun... and the job's Add had begun before the Purge returned.
func (h *H) maybePurged(jr *JobRec) bool {
	for _, p := range h.Purges {
		if jr.Q != nil && p.Arg == jr.Q.Idx && p.W == jr.W {
			if !p.Done || jr.AddCall < p.Ret {
				return true
			}
		}
	}
	return false
}

// surelyPurged: the job was fully accepted before the Purge call began and had not been dispatched... (not decidable
// in general; used only for "never runs" checks together with start events)

// lastQuietBefore returns the latest quiescence mark < seq at which every dispatched job had started
// (validated with the monitor's dispatch count), or 0.
func (h *H) lastQuietBefore(w *W, seq int) int {
	best := 0
	for _, q := range h.Quiets {
		if q.Seq >= seq {
			break
		}
		d, s := 0, 0
		for _, x := range w.Disp {
			if x <= q.Seq {
				d++
			}
		}
		for _, jr := range h.Jobs {
			for i, st := range jr.Starts {
				if jr.StartW[i] == w && st <= q.Seq {
					s++
				}
			}
		}
		if d == s && !h.NoMon {
			best = q.Seq
		}
	}
	return best
}

// onStart runs the clauses that are judged at a worker-function start.
func (h *H) onStart(w *W, jr *JobRec, s int) {
	if len(jr.Starts) > 1 {
		h.viol("C01", "C01.twice", fmt.Sprintf("job started %d times", len(jr.Starts)))
	}
	if jr.Rejected {
		h.viol("C01", "C01.rejected-ran", "a rejected submission was executed")
	}
	// C02: in-flight <= largest limit in effect since the oldest in-flight job may have been dispatched
	oldest := s
	for _, o := range h.Jobs {
		if !o.inWF() || o.StartW[len(o.StartW)-1] != w {
			continue
		}
		d := o.AddCall
		if q := h.lastQuietBefore(w, o.Starts[len(o.Starts)-1]); q > d {
			d = q
		}
		if d < oldest {
			oldest = d
		}
	}
	if l := w.maxLimit(oldest, s); w.Inflight > l {
		h.viol("C02", "C02.limit", fmt.Sprintf("%d worker functions in progress, limit %d", w.Inflight, l))
	}
	// C02.tune: once TunePool(n) has returned and the jobs dispatched before it have finished, at most n run
	// together. OldUnfinished bounds the jobs dispatched before the return that were unfinished then; those
	// among them that the harness knows (started before the return) are subtracted as they end.
	for i := len(h.Ctls) - 1; i >= 0; i-- {
		c := h.Ctls[i]
		if c.W != w || c.Op != "TunePool" {
			continue
		}
		if !c.Done || c.Err != nil || c.Ret > s {
			break // a call in progress (or later): both limits count, judged by C02.limit only
		}
		old := c.OldUnfinished
		for _, o := range h.Jobs {
			for k, st := range o.Starts {
				if o.StartW[k] == w && st < c.Ret && k < len(o.Ends) && o.Ends[k] > c.Ret && o.Ends[k] < s {
					old--
				}
			}
		}
		n := c.Arg
		if n < 1 {
			n = w.curLimit()
		}
		if old <= 0 && w.Inflight > n && !h.NoMon {
			h.viol("C02", "C02.tune", "more jobs run together than the new limit although TunePool had returned and every job dispatched before it had finished")
		}
		break
	}
	// C09: nothing starts after a stopping barrier returned and before the next Resume/Restart call
	for i := len(h.Ctls) - 1; i >= 0; i-- {
		c := h.Ctls[i]
		if c.W != w {
			continue
		}
		if c.Op == "Resume" || c.Op == "Restart" {
			break
		}
		// (a Bind starts an Initiated worker only, and no barrier returns nil on an Initiated worker)
		if (c.Op == "PauseAndWait" || c.Op == "Stop" || c.Op == "WaitAndStop") && c.Done && c.Err == nil && c.Ret < s && h.barrierApplies(c) {
			// a Resume / Restart that was still in progress when the barrier was called may take effect after it returned
			overl := false
			for _, o := range h.Ctls {
				if o.W == w && (o.Op == "Resume" || o.Op == "Restart") && (!o.Done || o.Ret > c.Call) {
					overl = true
				}
			}
			if overl {
				break
			}
			h.viol("C09", "C09.start-after-"+c.Op, "a worker function started after "+c.Op+" returned and before Resume/Restart")
			break
		}
	}
	// C04 (concurrency 1, priority queue): at this job's dequeue no fully accepted, still pending job of the same
	// queue had a smaller (priority, acceptance) key. The dequeue cannot lie before t: the end of the previous job
	// of this worker (limit 1), this job's own Add call, or the Resume that followed a pause with nothing started since.
	if jr.Q != nil && jr.Q.Kind.IsPrio() && len(w.Qs) == 1 && len(h.Ws) == 1 && jr.Accepted && w.maxLimitEver() == 1 && len(jr.Starts) == 1 {
		t := jr.AddCall
		for _, o := range h.Jobs {
			for k, e := range o.Ends {
				if o.StartW[k] == w && e < s && e > t {
					t = e
				}
			}
		}
		lastStart := 0
		for _, o := range h.Jobs {
			for k, st := range o.Starts {
				if o.StartW[k] == w && st < s && st > lastStart {
					lastStart = st
				}
			}
		}
		for _, c := range h.Ctls {
			if c.W == w && (c.Op == "Resume" || c.Op == "Restart") && c.Call < s && c.Call > lastStart && c.Call > t && w.RefState != "?" {
				t = c.Call
			}
		}
		for _, o := range h.Jobs {
			if o == jr || o.Q != jr.Q || !o.Accepted || len(o.Starts) > 0 || o.anyClose() || h.maybePurged(o) {
				continue
			}
			if (o.AddRet == 0 || o.AddRet >= t) && !batchBefore(o, jr) {
				continue
			}
			if o.Batch != nil && !h.batchSure(o) {
				continue
			}
			if o.Prio < jr.Prio || (o.Prio == jr.Prio && (o.AddRet < jr.AddCall || batchBefore(o, jr))) {
				h.viol("C04", "C04.priority", "a job was dispatched while a pending job of the same queue had a smaller priority number or, at equal priority, had been accepted earlier")
			}
		}
	}
	// C04 (concurrency 1, FIFO): a job whose Add returned before this job's Add was called must have started first
	if jr.Q != nil && !jr.Q.Kind.IsPrio() && len(w.Qs) == 1 && len(h.Ws) == 1 && jr.Accepted {
		for _, o := range h.Jobs {
			if o == jr || o.Q != jr.Q || !o.Accepted || ((o.AddRet >= jr.AddCall || o.AddRet == 0) && !batchBefore(o, jr)) {
				continue
			}
			if len(o.Starts) == 0 && !o.anyClose() && !h.maybePurged(o) && w.maxLimitEver() == 1 {
				h.viol("C04", "C04.fifo", "a job started before an earlier-accepted job of the same FIFO queue")
			}
		}
	}
}

// batchBefore: o and jr are items of one AddAll and o comes first in the slice (items are accepted in slice order).
func batchBefore(o, jr *JobRec) bool {
	if o.Batch == nil || o.Batch != jr.Batch {
		return false
	}
	for _, t := range o.Batch.Tags {
		if t == o.Tag {
			return true
		}
		if t == jr.Tag {
			return false
		}
	}
	return false
}

// barrierApplies: PauseAndWait/Stop only count when the worker was not initiated (err nil on Initiated is impossible).
func (h *H) barrierApplies(c *Ctl) bool { return true }

// ---------------------------------------------------------------------------------------------
// the monitor: called by the scheduler at every point, in raw mode

var rank = map[string]int{"Created": 0, "Queued": 1, "Processing": 2, "Finished": 3, "Closed": 4}

func (h *H) rawGet(f func() int) (int, bool) {
	vrt.S.RawConfl = false
	v := f()
	return v, !vrt.S.RawConfl
}

func (h *H) monitor() {
	for _, w := range h.Ws {
		if w.Wk == nil {
			continue
		}
		started := 0
		notif := w.Notified
		for _, jr := range h.Jobs {
			if jr.W == w && jr.AddCall > 0 {
				started++
			}
		}
		if np, ok := h.rawGet(w.Wk.NumPending); ok {
			ub := started
			for _, a := range h.Adapters {
				ub += a.nseq // everything ever placed on an adapter (it may be bound to this worker, or about to be)
			}
			if np < 0 {
				h.viol("C17", "C17.pending-negative", "worker NumPending() < 0")
			} else if np > ub {
				h.viol("C17", "C17.pending-over", fmt.Sprintf("worker NumPending()=%d exceeds the %d submissions begun", np, ub))
			}
		}
		if proc, ok := h.rawGet(w.Wk.NumProcessing); ok {
			if proc < 0 || proc > w.maxLimitEver() {
				h.viol("C17", "C17.processing-over", fmt.Sprintf("NumProcessing()=%d, largest limit configured %d", proc, w.maxLimitEver()))
			}
			if proc < w.Inflight {
				// (a slot is taken before the worker function is entered and given back after it has returned)
				h.viol("C17", "C17.processing-under", fmt.Sprintf("NumProcessing()=%d while %d worker functions are executing", proc, w.Inflight))
			}
			// (a counter that has wrapped around reads as billions: it is reported above, not iterated over)
			if proc-w.lastProc < 1<<12 {
				for k := w.lastProc; k < proc; k++ {
					w.Disp = append(w.Disp, h.seq)
				}
			}
			w.lastProc = proc
		}
		for _, q := range w.Qs {
			if q.Base == nil {
				continue
			}
			if np, ok := h.rawGet(q.Base.NumPending); ok {
				ub := 0
				for _, jr := range h.Jobs {
					if jr.Q == q && jr.AddCall > 0 {
						ub++
					}
				}
				if q.Ad != nil {
					ub = q.Ad.nseq
				}
				if np < 0 {
					h.viol("C17", "C17.pending-negative", "queue NumPending() < 0")
				} else if np > ub {
					h.viol("C17", "C17.pending-over", fmt.Sprintf("queue NumPending()=%d exceeds the %d submissions begun", np, ub))
				}
			}
		}
		m := w.Wk.Metrics()
		ends := 0
		for _, jr := range h.Jobs {
			for i := range jr.Ends {
				if jr.StartW[i] == w {
					ends++
				}
			}
		}
		if sub := int(m.Submitted()); sub > started+notif {
			h.viol("C17", "C17.submitted-over", fmt.Sprintf("Submitted()=%d exceeds the %d submissions begun", sub, started+notif))
		}
		if c := int(m.Completed()); c > ends {
			h.viol("C17", "C17.completed-over", fmt.Sprintf("Completed()=%d exceeds the %d finished invocations", c, ends))
		}
		if sf := int(m.Successful() + m.Failed()); sf > ends {
			h.viol("C17", "C17.outcome-over", fmt.Sprintf("Successful()+Failed()=%d exceeds the %d finished invocations", sf, ends))
		}
	}
	for _, jr := range h.Jobs {
		if jr.St == nil {
			continue
		}
		st := jr.St.Status()
		r, ok := rank[st]
		if !ok {
			h.viol("C16", "C16.unknown", "status "+st)
			continue
		}
		if r < jr.lastRank {
			h.viol("C16", "C16.backward", fmt.Sprintf("status went back to %s", st))
		}
		jr.lastRank = r
		if jr.inWF() && len(jr.Starts) == 1 && st != "Processing" {
			h.viol("C16", "C16.processing", fmt.Sprintf("status %s while the worker function runs", st))
		}
		if jr.Batch != nil && jr.Batch.WaitRet > 0 && jr.Batch.AddRet > 0 && st != "Closed" && (len(jr.Ends) > 0 || jr.anyClose() || h.maybePurged(jr)) {
			// (items whose status handle is known were started; once the batch's Wait has returned each of them reads Closed)
			h.viol("C16", "C16.after-wait", fmt.Sprintf("status %s of a batch item after the batch's Wait returned", st))
		}
		if jr.waitRet > 0 && st != "Closed" {
			h.viol("C16", "C16.after-wait", fmt.Sprintf("status %s after Wait returned", st))
		}
	}
	for _, b := range h.Batches {
		if b.NumPend == nil || b.AddRet == 0 {
			continue
		}
		np := b.NumPend()
		ended, gone := 0, 0
		for _, t := range b.Tags {
			jr := h.jobByTag[t]
			if len(jr.Ends) > 0 {
				ended++
			} else if len(jr.Starts) > 0 {
				// executing: it was accepted and is not finished, so it must still be counted
			} else if jr.Rejected || jr.anyClose() || h.maybePurged(jr) || !jr.Accepted || jr.Q.Closed || len(h.QCloses) > 0 {
				gone++
			}
		}
		if np > len(b.Tags) || np < len(b.Tags)-ended-gone || np < 0 {
			h.viol("C08", "C08.pending-range", fmt.Sprintf("batch NumPending()=%d with %d items, %d finished", np, len(b.Tags), ended))
		}
		if b.WaitRet > 0 && np != 0 {
			h.viol("C08", "C08.pending-after-wait", fmt.Sprintf("batch NumPending()=%d after Wait returned", np))
		}
	}
	if h.MonExtra != nil {
		h.MonExtra(h)
	}
}

// ---------------------------------------------------------------------------------------------
// clauses judged at a quiescence mark (read inside the execution by the main thread)

func (h *H) sureRunnable(jr *JobRec) bool {
	return jr.Accepted && !jr.anyClose() && !h.maybePurged(jr) && jr.AddRet > 0
}

func (h *H) sampleQuiet() {
	q := h.Quiets[len(h.Quiets)-1]
	for _, w := range h.Ws {
		if w.Wk == nil {
			continue
		}
		if !h.NoRest {
			h.restCounts(w)
		}
		// C18: at rest the worker keeps no more worker goroutines than the largest concurrency configured
		// (a retired goroutine is alive until it has read its stop message, hence judged at rest only)
		if n := vrt.LiveLib("initPoolNode"); len(h.Ws) == 1 && n > w.maxLimitEver() {
			h.viol("C18", "C18.poolsize", "more worker goroutines are kept at rest than the largest concurrency configured")
		}
		if w.RefState != "Running" || h.ctlInProgress(w) {
			continue
		}
		if w.Inflight == 0 && !h.anyCallInProgress() {
			if n := w.Wk.NumIdleWorkers(); n < 1 {
				h.viol("C18", "C18.idle-min", "a running worker keeps no idle worker at rest")
			}
		}
		// C04 (concurrency n): at rest with the gates closed the started jobs form a prefix of the queue's order —
		// no job waits while a job that entered the queue after it (or, on a priority queue, ranks behind it) has started.
		// Only pairs whose submissions did not overlap are compared.
		if h.Shape == Gated && !q.GatesOpen && len(h.Ws) == 1 && len(w.Qs) == 1 && !w.Qs[0].Kind.IsAdapter() {
			for _, x := range h.Jobs {
				if x.W != w || len(x.Starts) == 0 || !x.Accepted {
					continue
				}
				for _, y := range h.Jobs {
					if y.W != w || y == x || len(y.Starts) > 0 || !h.sureRunnable(y) || y.AddRet >= x.AddCall {
						continue
					}
					if (y.Batch != nil && !h.batchSure(y)) || (x.Batch != nil && x.Batch == y.Batch) {
						continue
					}
					before := !w.Qs[0].Kind.IsPrio() || y.Prio <= x.Prio
					if before {
						h.viol("C04", "C04.prefix", "a job is still waiting while a job that ranks behind it in the queue's order has been started")
					}
				}
			}
		}
		if h.Shape == Gated && !q.GatesOpen && len(h.Ws) == 1 {
			u, infl := 0, 0
			for _, jr := range h.Jobs {
				if jr.W != w {
					continue
				}
				if jr.inWF() {
					infl++ // (a job that is executing holds a slot, whatever is known about its acceptance)
				} else if !(jr.Batch != nil && !h.batchSure(jr)) && h.sureRunnable(jr) && len(jr.Starts) == 0 {
					u++
				}
			}
			// (with TunePool calls that overlapped, which of them took effect last is not known to the harness: the
			// smaller of its own record and the limit the worker reports is a sound lower bound)
			lim := min(w.curLimit(), w.Wk.NumConcurrency())
			want := min(u+infl, lim)
			if infl < want {
				h.viol("C03", "C03.underuse", fmt.Sprintf("%d jobs in flight at rest with %d runnable and limit %d", infl, u+infl, lim))
				if len(w.Qs) > 1 {
					h.viol("C15", "C15.starved", "with several queues bound a running worker at rest has a free slot and leaves a queue's pending job undispatched")
				}
			}
		}
	}
}

// restCounts: exact equalities at a quiescence mark with no API call in progress (C17), read inside the execution.
func (h *H) restCounts(w *W) {
	if h.anyCallInProgress() {
		return
	}
	sum := 0
	for _, q := range w.Qs {
		np := q.Base.NumPending()
		sum += np
		if q.Ad != nil {
			if np != len(q.Ad.items) {
				h.viol("C17", "C17.rest-queue", fmt.Sprintf("adapter queue NumPending()=%d at rest, adapter holds %d", np, len(q.Ad.items)))
			}
			continue
		}
		hi, lo := 0, 0
		for _, jr := range h.Jobs {
			if jr.Q != q || !jr.Accepted || jr.AddRet == 0 {
				continue
			}
			if jr.Batch != nil && !h.batchSure(jr) {
				hi++
				continue
			}
			if len(jr.Starts) == 0 {
				hi++
				if !jr.anyClose() && !h.maybePurged(jr) {
					lo++
				}
			}
		}
		if np < lo || np > hi {
			h.viol("C17", "C17.rest-queue", fmt.Sprintf("queue NumPending()=%d at rest, expected %d..%d", np, lo, hi))
		}
	}
	if wp := w.Wk.NumPending(); wp != sum {
		h.viol("C17", "C17.rest-worker-sum", fmt.Sprintf("worker NumPending()=%d at rest, its queues sum to %d", wp, sum))
	}
	if p := w.Wk.NumProcessing(); p != w.Inflight {
		h.viol("C17", "C17.rest-processing", fmt.Sprintf("NumProcessing()=%d at rest with %d worker functions executing", p, w.Inflight))
	}
	acc, accHi, ends := 0, 0, 0
	for _, jr := range h.Jobs {
		if jr.W == w && jr.Accepted && jr.AddRet > 0 && (jr.Q == nil || (jr.Q.Kind != Dist && jr.Q.Kind != DistPrio)) {
			accHi++
			if jr.Batch == nil || h.batchSure(jr) {
				acc++
			}
		}
		for i := range jr.Ends {
			if jr.StartW[i] == w {
				ends++
			}
		}
	}
	m := w.Wk.Metrics()
	if s := int(m.Submitted()); s < acc+w.Notified || s > accHi+w.Notified {
		h.viol("C17", "C17.rest-submitted", fmt.Sprintf("Submitted()=%d at rest with %d accepted submissions", s, acc+w.Notified))
	}
	c, sf := int(m.Completed()), int(m.Successful()+m.Failed())
	if c != ends || sf != ends {
		h.viol("C17", "C17.rest-completed", fmt.Sprintf("Completed()=%d, Successful()+Failed()=%d at rest with %d finished invocations", c, sf, ends))
	}
}

func (h *H) anyCallInProgress() bool { return len(h.inCall) > 0 }

// qcloseBegan: a Close of the queue had been called before seq (items of a batch may then have been rejected).
func (h *H) qcloseBegan(q *Q, seq int) bool {
	for _, c := range h.QCloses {
		if c.W == q.W && c.Arg == q.Idx && c.Call < seq {
			return true
		}
	}
	return false
}

func (h *H) batchSure(jr *JobRec) bool { return jr.Q != nil && !jr.Q.Closed && len(h.QCloses) == 0 }

func (h *H) ctlInProgress(w *W) bool {
	for _, c := range h.Ctls {
		if c.W == w && !c.Done {
			return true
		}
	}
	return false
}

// ---------------------------------------------------------------------------------------------
// final judgement of one execution

func (h *H) threadOp(t int) string { return h.inCall[t] }

// Judge evaluates all generic clauses after the execution ended.
func (h *H) Judge(x *vrt.Exec) ([]vrt.Violation, uint64) {
	crashed := x.Crash != ""
	if crashed {
		msg := x.Crash
		if i := strings.Index(msg, "\n"); i > 0 {
			msg = msg[:i]
		}
		if len(msg) > 90 {
			msg = msg[:90]
		}
		h.viol(h.CrashProp, h.CrashProp+".crash", msg+" @ "+x.CrashFrame)
	}
	if x.Livelock != "" {
		// the execution was cut at the step cap with one library goroutine as the only thread able to move
		h.viol("C03", "C03.livelock", x.Livelock)
		if h.HangProp != "C03" && h.HangProp != "" {
			h.viol(h.HangProp, h.HangProp+".livelock", x.Livelock)
		}
	}
	// hangs: harness threads that are not finished when nothing can move
	if !crashed && x.Livelock == "" {
		for _, b := range x.Blocked {
			if b.Lib {
				// library threads blocked on a lock / waitgroup / send can never be woken: internal deadlock
				switch b.Kind {
				case "lock", "rlock", "wgwait", "send", "condblocked":
					h.viol("C03", "C03.deadlock", "library goroutine "+b.Name+" blocked forever in "+b.Kind)
				}
				continue
			}
			op := h.inCall[b.ID]
			prop := h.HangProp
			switch op {
			case "Wait", "Result", "Err", "BatchWait":
				prop = "C05"
				if op == "BatchWait" {
					// (a batch whose Wait never returns never reaches NumPending 0 and never closes its stream)
					h.viol("C08", "C08.hang", "the batch's Wait never returns")
				}
			case "ReadStream":
				prop = "C08"
			case "WaitUntilFinished", "PauseAndWait", "Stop", "WaitAndStop":
				prop = "C06"
			case "":
				op = "harness thread (" + b.Kind + ")"
			}
			h.viol(prop, prop+".hang", op+" never returns")
		}
	}
	h.judgeJobs(crashed)
	h.judgeHandles(crashed)
	h.judgeBarriers()
	h.judgeBatches(crashed)
	h.judgeAdapters(crashed)
	if h.Extra != nil && !crashed {
		h.Extra(h, x)
	}
	sort.Slice(h.V, func(i, j int) bool { return h.V[i].Sig() < h.V[j].Sig() })
	return h.V, h.hist
}

func (h *H) judgeJobs(crashed bool) {
	for _, jr := range h.Jobs {
		// C01.d identity
		for _, id := range jr.SeenID {
			if jr.WantID == "~auto" {
				// submitted without an ID: the worker's generator supplies one per item, distinct from every other item's
				bare := strings.TrimPrefix(id, "g:")
				ok := strings.HasPrefix(bare, "auto") && len(bare) > 4
				for _, o := range h.Jobs {
					if o != jr && len(o.SeenID) > 0 && o.SeenID[0] == id {
						ok = false
					}
				}
				if !ok {
					h.viol("C01", "C01.identity", "a batch item submitted without an ID did not get its own ID from the worker's generator")
					h.viol("C07", "C07.identity", "a batch item submitted without an ID did not get its own ID from the worker's generator")
				}
				continue
			}
			if jr.WantID != "" {
				want := jr.WantID
				if want == "-" {
					want = ""
				}
				ok := id == want || (jr.Batch != nil && id == "g:"+want)
				if !ok {
					h.viol("C01", "C01.identity", fmt.Sprintf("worker function saw ID %q for a job submitted as %q", id, want))
					h.viol("C07", "C07.identity", fmt.Sprintf("worker function saw ID %q for a job submitted as %q", id, want))
					if jr.Q != nil && jr.Q.Kind.IsAdapter() && !jr.Q.Kind.IsCustom() {
						h.viol("C12", "C12.identity", fmt.Sprintf("a job stored through an adapter reached the worker function with ID %q, submitted as %q", id, want))
					}
				}
			}
		}
		// C10.a: Close returned nil with its effect point before the end of the run
		for _, c := range jr.Closes {
			if !c.Done {
				continue
			}
			for i, st := range jr.Starts {
				en := int(^uint(0) >> 1)
				if i < len(jr.Ends) {
					en = jr.Ends[i]
				}
				if c.Err == nil && c.Call < st && c.Ret < en {
					h.viol("C10", "C10.closed-ran", "Close returned nil before the job started, yet the job was executed")
				}
				if c.Err == nil && c.Ret < st {
					h.viol("C01", "C01.cancelled-ran", "a job whose Close had already returned nil was executed afterwards")
				}
				if c.Err == nil && c.Call > st && c.Ret < en {
					h.viol("C10", "C10.close-processing", "Close returned nil while the job was executing")
				}
				if c.Call > st && c.Ret < en && c.Err != nil && errStr(c.Err) != "ErrJobProcessing" {
					h.viol("C10", "C10.close-processing", "Close on an executing job returned "+errStr(c.Err))
				}
			}
		}
		// second Close strictly after a nil one
		for i, c := range jr.Closes {
			if !c.Done || c.Err != nil {
				continue
			}
			for k, d := range jr.Closes {
				if k != i && d.Done && d.Call > c.Ret && errStr(d.Err) != "ErrJobAlreadyClosed" {
					h.viol("C10", "C10.close-twice", "Close after a successful Close returned "+errStr(d.Err))
				}
			}
		}
	}
	if !h.Final || crashed {
		return
	}
	for _, jr := range h.Jobs {
		if jr.W != nil && (jr.W.RefState != "Running" || h.ctlInProgress(jr.W)) {
			continue
		}
		if jr.Batch != nil && !h.batchSure(jr) {
			continue
		}
		if h.sureRunnable(jr) {
			if len(jr.Starts) == 0 {
				h.viol("C01", "C01.lost", "an accepted job was never executed")
				h.viol("C03", "C03.stuck", "an accepted job was never started although the worker is running and idle")
				if jr.W != nil && jr.W.FinalStatus == "Running" {
					h.viol("C14", "C14.running-stuck", "the worker reports Running at rest and leaves an accepted job unstarted")
					for _, c := range h.Ctls {
						if c.W == jr.W && (c.Op == "Resume" || c.Op == "Restart") && c.Done && c.Err == nil {
							h.viol("C09", "C09.resume-stall", "after Resume / Restart a job that was pending is never processed")
							break
						}
					}
				}
			} else if len(jr.Ends) == 0 {
				h.viol("C03", "C03.stuck", "a started job never finished")
			}
		}
		if jr.FinalStatus == "Processing" && !jr.inWF() {
			h.viol("C03", "C03.phantom-processing", "a job reads Processing with no goroutine executing it")
		}
		// cancelled (nil Close) jobs: either never ran, or (Close overlapped the completion) ran once — and are released
		if jr.H != nil && jr.Accepted && (jr.nilClose() != nil || h.maybePurged(jr) || len(jr.Ends) > 0) {
			if st := jr.FinalStatus; st != "Closed" {
				h.viol("C16", "C16.final", "at rest a finished or cancelled job reads "+st)
			}
		}
		// Purge: a job that may have been purged either ran exactly once or is closed and released
		if h.maybePurged(jr) && jr.Accepted && jr.H != nil && len(jr.Starts) == 0 && jr.FinalStatus != "Closed" {
			h.viol("C10", "C10.purge-dropped", "a job removed by Purge was neither cancelled nor executed")
		}
	}
}

func (h *H) releaseCause(jr *JobRec, ret int) bool {
	if jr.Rejected {
		return true
	}
	for _, e := range jr.Ends {
		if e < ret {
			return true
		}
	}
	for _, c := range jr.Closes {
		if c.Call < ret && (!c.Done || c.Err == nil) {
			return true
		}
	}
	for _, p := range h.Purges {
		if p.Call < ret && jr.Q != nil && p.Arg == jr.Q.Idx {
			return true
		}
	}
	return false
}

func (h *H) judgeHandles(crashed bool) {
	for _, c := range h.HCalls {
		if !c.Done {
			continue
		}
		switch c.Op {
		case "Wait", "Result", "Err":
			jr := h.jobByTag[c.Job]
			if !h.releaseCause(jr, c.Ret) {
				h.viol("C05", "C05.early", c.Op+" returned before the job finished or was cancelled")
			}
			if len(jr.Ends) > 0 && jr.Ends[0] < c.Call && jr.nilClose() == nil && !h.maybePurged(jr) {
				// outcome must be the job's own
				switch c.Op {
				case "Result":
					h.checkOutcome(jr, c.Val, c.Err)
				case "Err":
					h.checkOutcome(jr, valOf(jr.Tag), c.Err)
				}
			} else if len(jr.Ends) > 0 && jr.Ends[0] < c.Ret && jr.nilClose() == nil && !h.maybePurged(jr) && !jr.anyClose() {
				switch c.Op {
				case "Result":
					h.checkOutcome(jr, c.Val, c.Err)
				case "Err":
					h.checkOutcome(jr, valOf(jr.Tag), c.Err)
				}
			}
		case "BatchWait":
			b := h.Batches[c.Batch]
			for _, t := range b.Tags {
				// (an item that never starts may have been rejected by a queue Close that had begun; one that
				// does start was accepted, and then only its end, a cancel or a purge releases the batch)
				jr := h.jobByTag[t]
				if !h.releaseCause(jr, c.Ret) && (len(jr.Starts) > 0 || !h.qcloseBegan(b.Q, c.Ret)) {
					h.viol("C05", "C05.early", "batch Wait returned before every item finished")
				}
			}
		}
	}
}

func (h *H) checkOutcome(jr *JobRec, v int, err error) {
	switch jr.Beh {
	case BVal:
		if err != nil || v != valOf(jr.Tag) {
			h.viol("C07", "C07.outcome", fmt.Sprintf("handle of a job returning a value got (%d,%s)", v-valOf(jr.Tag), errStr(err)))
		}
	case BErr:
		if err == nil || err.Error() != errOf(jr.Tag).Error() {
			h.viol("C07", "C07.outcome", "handle of a job returning an error got "+errStr(err))
		}
	case BPanic:
		if err == nil || !strings.Contains(err.Error(), panicText(jr.Tag)) {
			h.viol("C07", "C07.outcome", "handle of a panicking job got "+errStr(err))
		}
	}
}

func (h *H) inflightAt(w *W, seq int) int {
	n := 0
	for _, jr := range h.Jobs {
		for i, s := range jr.Starts {
			if jr.StartW[i] != w || s > seq {
				continue
			}
			if i >= len(jr.Ends) || jr.Ends[i] > seq {
				n++
			}
		}
	}
	return n
}

func (h *H) judgeBarriers() {
	for _, c := range h.Ctls {
		if !c.Done || c.W == nil {
			continue
		}
		switch c.Op {
		case "PauseAndWait", "Stop", "WaitAndStop":
			if c.Err == nil && h.inflightAt(c.W, c.Ret) > 0 {
				h.viol("C06", "C06.early-"+c.Op, c.Op+" returned while a worker function was executing")
			}
		case "WaitUntilFinished":
			if !h.runningThroughout(c) {
				continue
			}
			for _, jr := range h.Jobs {
				if jr.W != c.W || !jr.Accepted || jr.AddRet == 0 || jr.AddRet > c.Call || jr.anyClose() || h.maybePurged(jr) {
					continue
				}
				if jr.Batch != nil && !h.batchSure(jr) {
					continue
				}
				done := false
				for _, e := range jr.Ends {
					if e < c.Ret {
						done = true
					}
				}
				if !done {
					h.viol("C06", "C06.early-WaitUntilFinished", "WaitUntilFinished returned before a job accepted earlier had finished")
				}
			}
		}
	}
}

// runningThroughout: the worker was bound before the call and no other control call overlaps or changes the state.
func (h *H) runningThroughout(c *Ctl) bool {
	state := "Initiated"
	for _, o := range h.Ctls {
		if o.W != c.W || o == c {
			continue
		}
		if o.Call > c.Ret {
			break
		}
		if o.Op == "TunePool" || o.Op == "Purge" || o.Op == "QClose" || o.Op == "WaitUntilFinished" {
			continue
		}
		if !o.Done || o.Ret > c.Call {
			if strings.HasPrefix(o.Op, "Bind") && state == "Running" {
				continue
			}
			return false
		}
		state, _ = refStep(state, o.Op)
	}
	return state == "Running"
}

func (h *H) judgeBatches(crashed bool) {
	for _, b := range h.Batches {
		if b.Results == nil && b.Errs == nil {
			continue
		}
		// one result per executed item, tagged with its own id
		seen := map[string]int{}
		for _, r := range b.Got {
			seen[r.JobId]++
			// the tag of a result is the ID the item carried inside the worker function
			var jr *JobRec
			for _, t := range b.Tags {
				if o := h.jobByTag[t]; len(o.SeenID) > 0 && o.SeenID[0] == r.JobId {
					jr = o
				}
			}
			if jr == nil {
				tag := -1
				fmt.Sscanf(strings.TrimPrefix(r.JobId, "g:"), "id%d", &tag)
				jr = h.jobByTag[tag]
			}
			if jr == nil || jr.Batch != b {
				h.viol("C08", "C08.result-id", fmt.Sprintf("stream delivered a result tagged %q which is not an item of the batch", r.JobId))
				continue
			}
			if len(jr.Ends) == 0 {
				h.viol("C08", "C08.result-unexecuted", "stream delivered a result for an item that was not executed")
			}
			h.checkBatchOutcome(jr, r.Data, r.Err)
		}
		for id, n := range seen {
			if n > 1 {
				h.viol("C08", "C08.result-dup", fmt.Sprintf("stream delivered %d results tagged %q", n, id))
			}
		}
		if h.Final && !crashed && b.StreamEnd > 0 {
			if b.Results != nil {
				for _, t := range b.Tags {
					jr := h.jobByTag[t]
					if len(jr.Ends) > 0 && len(jr.SeenID) > 0 && seen[jr.SeenID[0]] == 0 {
						h.viol("C08", "C08.result-missing", "an executed item has no result on the stream")
					}
				}
			} else {
				nerr := 0
				for _, t := range b.Tags {
					jr := h.jobByTag[t]
					if len(jr.Ends) > 0 && jr.Beh != BVal {
						nerr++
					}
				}
				if len(b.GotErrs) != nerr {
					h.viol("C08", "C08.errors-count", fmt.Sprintf("stream delivered %d errors for %d failed items", len(b.GotErrs), nerr))
				}
			}
		}
		if h.Final && !crashed {
			allDone := true
			for _, t := range b.Tags {
				jr := h.jobByTag[t]
				if len(jr.Ends) == 0 && h.sureRunnable(jr) && h.batchSure(jr) {
					allDone = false
				}
			}
			if allDone && b.NumPend != nil && b.FinalPend != 0 {
				h.viol("C08", "C08.pending-final", fmt.Sprintf("batch NumPending()=%d at rest with every item finished", b.FinalPend))
			}
		}
	}
}

func (h *H) checkBatchOutcome(jr *JobRec, v int, err error) {
	switch jr.Beh {
	case BVal:
		if err != nil || v != valOf(jr.Tag) {
			h.viol("C08", "C08.result-value", "batch result of a succeeding item carries a wrong value or an error")
		}
	default:
		if err == nil {
			h.viol("C08", "C08.result-value", "batch result of a failing item carries no error")
		}
	}
}

// judgeAdapters checks the acknowledgement discipline on every recording adapter (C11) in every execution.
func (h *H) judgeAdapters(crashed bool) {
	seen := map[*Adapter]bool{}
	for _, w := range h.Ws {
		for _, q := range w.Qs {
			a := q.Ad
			if a == nil || seen[a] || a.AnyItems {
				continue
			}
			seen[a] = true
			issued := map[string]AdCall{}
			acked := map[string]int{}
			for _, c := range a.Log {
				switch c.Op {
				case "deq":
					if c.OK {
						issued[c.Ack] = c
					}
				case "ack":
					d, ok := issued[c.Ack]
					if !ok {
						h.viol("C11", "C11.ack-unknown", "Acknowledge called with an id the adapter never issued")
						continue
					}
					acked[c.Ack]++
					if acked[c.Ack] > 1 {
						h.viol("C11", "C11.ack-twice", "a delivery was acknowledged more than once")
					}
					tag := tagOfData(d.Data)
					jr := h.jobByTag[tag]
					ended := false
					if jr != nil {
						for _, e := range jr.Ends {
							if e < c.Seq {
								ended = true
							}
						}
					}
					if !ended {
						h.viol("C11", "C11.ack-before-end", "a delivery was acknowledged before the worker function returned for it (or without ever being processed)")
					}
				}
			}
		}
	}
}

// adapterSkip: entries that are not processed at all (stored with status Closed) may be acknowledged without a run.
func (h *H) adapterSkip(data string) bool { return strings.Contains(data, `"status":"Closed"`) }

// End is the standard last step of a scenario body: wait for quiescence with every gate open, then read —
// inside the execution — whatever the final clauses need from the library.
func (h *H) End() {
	h.Quiesce(true)
	for _, jr := range h.Jobs {
		if jr.St != nil {
			jr.FinalStatus = jr.St.Status()
		}
	}
	for _, b := range h.Batches {
		if b.NumPend != nil {
			b.FinalPend = b.NumPend()
		}
	}
	for _, w := range h.Ws {
		if w.Wk != nil {
			w.FinalStatus = w.Wk.Status()
			w.FinalIdle = w.Wk.NumIdleWorkers()
		}
	}
	h.Final = true
}
