package vharness

import (
	"fmt"
	"time"

	varmq "github.com/goptics/varmq"
	"github.com/goptics/varmq/internal/queues"
	"github.com/goptics/varmq/internal/vrt"
)

// Scenario families around cancellation, barriers, pause/stop, pool tuning and the idle-worker reaper.

func init() {
	// ---- cancel: job.Close racing dispatch and completion (C10, C01, C05, C16) -------------------------
	for _, kp := range memKinds() {
		kp := kp
		Register(&Scenario{
			Name:  name("cancel1/%s", kp),
			Props: []string{"C10", "C01", "C05", "C16"},
			Mode:  "PB", Quick: 1, Thorough: 2, Shards: 4,
			Body: func(h *H) {
				h.CrashProp = "C10"
				w := h.NewWorker(kp.W, 1)
				q := w.Bind(kp.Q, nil)
				j := q.Add(0, AddOpt{})
				go func() { h.CloseJob(j); h.CloseJob(j) }()
				go func() { h.Wait(j) }()
				h.End()
			},
		})
		Register(&Scenario{
			Name:  name("cancel2/%s", kp),
			Props: []string{"C10", "C01", "C05", "C06", "C16"},
			Mode:  "NB", Quick: 2, Thorough: 3, Shards: 8,
			Body: func(h *H) {
				h.CrashProp = "C10"
				w := h.NewWorker(kp.W, 1)
				q := w.Bind(kp.Q, nil)
				j0 := q.Add(0, AddOpt{})
				j1 := q.Add(1, AddOpt{Prio: 1})
				go func() { h.CloseJob(j1) }()
				go func() { h.CloseJob(j0) }()
				go func() { h.Wait(j1) }()
				h.End()
			},
		})
		// purge racing a concurrent Add and the dispatcher
		Register(&Scenario{
			Name:  name("purge/%s", kp),
			Props: []string{"C10", "C01", "C03", "C05", "C06", "C17"},
			Mode:  "NB", Quick: 2, Thorough: 3, Shards: 8,
			Body: func(h *H) {
				h.CrashProp = "C10"
				w := h.NewWorker(kp.W, 1)
				q := w.Bind(kp.Q, nil)
				q.Add(0, AddOpt{})
				j1 := q.Add(1, AddOpt{})
				go func() { q.Purge() }()
				go func() { q.Add(2, AddOpt{}) }()
				go func() { h.Wait(j1) }()
				h.End()
			},
		})
	}
	// a job cancelled while pending, with more jobs behind it: the slot of the skipped job is given back exactly once
	for _, kp := range []kindPair{{Plain, Fifo}, {ResW, Prio}, {ErrW, Fifo}} {
		kp := kp
		Register(&Scenario{
			Name:  name("cancel-mid/%s", kp),
			Props: []string{"C02", "C10", "C01", "C03", "C17"},
			Mode:  "NB", Quick: 2, Thorough: 3, Shards: 8,
			Body: func(h *H) {
				h.Shape = Gated
				h.CrashProp = "C10"
				w := h.NewWorker(kp.W, 1)
				q := w.Bind(kp.Q, nil)
				q.Add(0, AddOpt{})
				h.Quiesce(false)
				j1 := q.Add(1, AddOpt{Prio: 1})
				q.Add(2, AddOpt{Prio: 2})
				q.Add(3, AddOpt{Prio: 3})
				h.CloseJob(j1)
				go func() { h.Open(0) }()
				h.Quiesce(false)
				h.OpenAll(1, 2, 3)
				h.End()
			},
		})
	}
	// Purge when the FIFO queue's read segment is exhausted and the pending jobs live in the next segment
	for _, kp := range []kindPair{{Plain, Fifo}, {ResW, Fifo}} {
		kp := kp
		Register(&Scenario{
			Name:  name("segment-purge/%s", kp),
			Props: []string{"C10", "C05", "C17"},
			Mode:  "NB", Quick: 1, Thorough: 2, Shards: 4,
			Body: func(h *H) {
				h.Shape = Gated
				h.CrashProp = "C10"
				if !queues.VrtSetCaps(2, 3) {
					h.Notes = append(h.Notes, "capacity variables not found: real capacities used")
				}
				w := h.NewWorker(kp.W, 2)
				q := w.Bind(kp.Q, nil)
				var js []*JobRec
				for i := 0; i < 5; i++ {
					js = append(js, q.Add(i, AddOpt{}))
				}
				h.Quiesce(false) // jobs 0 and 1 (the whole first segment) are executing, 2..4 wait in the second
				go func() { q.Purge() }()
				go func() { h.Wait(js[4]) }()
				h.Quiesce(false)
				h.OpenAll(0, 1, 2, 3, 4)
				h.End()
			},
		})
	}
	// queue Close racing Add: later submissions are rejected without side effect, pending jobs still run
	for _, kp := range allKinds() {
		kp := kp
		if kp.Q == Dist || kp.Q == DistPrio {
			continue
		}
		Register(&Scenario{
			Name:  name("qclose/%s", kp),
			Props: []string{"C10", "C01", "C03", "C17"},
			Mode:  "NB", Quick: 2, Thorough: 3, Shards: 4,
			Body: func(h *H) {
				h.CrashProp = "C10"
				w := h.NewWorker(kp.W, 1)
				q := w.Bind(kp.Q, nil)
				q.Add(0, AddOpt{})
				var cl *Ctl
				go func() { q.Close(); cl = h.QCloses[0] }()
				var late *JobRec
				go func() { late = q.Add(1, AddOpt{}) }()
				h.Quiesce(true)
				_ = late
				subBefore := w.Wk.Metrics().Submitted()
				pendBefore := q.Base.NumPending()
				after := q.Add(2, AddOpt{})
				if cl != nil && cl.Done && after.Accepted {
					h.viol("C10", "C10.qclose-accept", "a submission made after the queue's Close returned was accepted")
				}
				if after.Rejected && (w.Wk.Metrics().Submitted() != subBefore || q.Base.NumPending() != pendBefore) {
					h.viol("C10", "C10.qclose-trace", "a rejected submission changed the pending count or the Submitted metric")
				}
				h.End()
			},
		})
	}

	// ---- barriers (C06) and pause/stop (C09) ---------------------------------------------------------------
	for _, kp := range []kindPair{{Plain, Fifo}, {Plain, Prio}, {ResW, Fifo}, {Plain, Pers}, {Plain, PersPrio}, {ErrW, Prio}} {
		kp := kp
		for _, c := range []int{1, 2} {
			c := c
			Register(&Scenario{
				Name:  name("wuf/%s/c%d", kp, c),
				Props: []string{"C06", "C03"},
				Mode:  "PB", Quick: 1, Thorough: 2, Shards: 8,
				Body: func(h *H) {
					h.HangProp = "C06"
					w := h.NewWorker(kp.W, c)
					q := w.Bind(kp.Q, nil)
					q.Add(0, AddOpt{})
					go func() { w.WaitUntilFinished() }()
					q.Add(1, AddOpt{})
					h.End()
				},
			})
		}
		Register(&Scenario{
			Name:  name("wuf2/%s", kp),
			Props: []string{"C06"},
			Mode:  "NB", Quick: 2, Thorough: 3, Shards: 8,
			Body: func(h *H) {
				h.HangProp = "C06"
				w := h.NewWorker(kp.W, 2)
				q := w.Bind(kp.Q, nil)
				q.Add(0, AddOpt{})
				q.Add(1, AddOpt{})
				go func() { w.WaitUntilFinished() }()
				go func() { w.WaitUntilFinished() }()
				h.End()
			},
		})
		// WaitUntilFinished while the queue is purged / the last pending job is cancelled: it must still return
		Register(&Scenario{
			Name:  name("wuf-purge/%s", kp),
			Props: []string{"C06", "C10"},
			Mode:  "NB", Quick: 2, Thorough: 3, Shards: 8,
			Body: func(h *H) {
				h.HangProp = "C06"
				h.CrashProp = "C10"
				w := h.NewWorker(kp.W, 1)
				q := w.Bind(kp.Q, nil)
				q.Add(0, AddOpt{})
				q.Add(1, AddOpt{Prio: 1})
				q.Add(2, AddOpt{Prio: 2})
				go func() { w.WaitUntilFinished() }()
				go func() { q.Purge() }()
				h.End()
			},
		})
		// three concurrent barrier callers of different kinds: every one of them must be released
		Register(&Scenario{
			Name:  name("wuf3/%s", kp),
			Props: []string{"C06"},
			Mode:  "NB", Quick: 1, Thorough: 2, Shards: 8,
			Body: func(h *H) {
				h.HangProp = "C06"
				h.Shape = Gated
				w := h.NewWorker(kp.W, 1)
				q := w.Bind(kp.Q, nil)
				q.Add(0, AddOpt{})
				h.Quiesce(false)
				go func() { w.WaitUntilFinished() }()
				go func() { w.WaitUntilFinished() }()
				go func() { w.PauseAndWait() }()
				go func() { w.WaitUntilFinished() }()
				h.Quiesce(false)
				h.Open(0)
				h.Quiesce(true)
				for _, ww := range h.Ws {
					ww.RefState = "Paused"
				}
				h.NoRest = true
				h.End()
			},
		})
		Register(&Scenario{
			Name:  name("pausewait/%s", kp),
			Props: []string{"C09", "C06", "C01", "C03", "C04", "C17"},
			Mode:  "PB", Quick: 1, Thorough: 2, Shards: 8,
			Body: func(h *H) {
				h.HangProp = "C06"
				w := h.NewWorker(kp.W, 1)
				q := w.Bind(kp.Q, nil)
				q.Add(0, AddOpt{})
				q.Add(1, AddOpt{Prio: 1})
				go func() { w.PauseAndWait() }()
				h.Quiesce(true)
				q.Add(2, AddOpt{Prio: 2})
				h.Quiesce(true)
				w.Resume()
				h.End()
			},
		})
		Register(&Scenario{
			Name:  name("stop/%s", kp),
			Props: []string{"C09", "C06", "C01", "C18", "C14"},
			Mode:  "NB", Quick: 2, Thorough: 3, Shards: 8,
			Body: func(h *H) {
				h.HangProp = "C06"
				w := h.NewWorker(kp.W, 1)
				q := w.Bind(kp.Q, nil)
				q.Add(0, AddOpt{})
				q.Add(1, AddOpt{Prio: 1})
				go func() { w.Stop() }()
				h.Quiesce(true)
				h.checkStoppedLeak(w)
				q.Add(2, AddOpt{Prio: 2})
				h.Quiesce(true)
				w.Restart()
				h.End()
			},
		})
		// Stop on a worker that was only Paused (not PauseAndWait): it must still wait for what is in transit or in flight
		Register(&Scenario{
			Name:  name("pause-stop/%s", kp),
			Props: []string{"C09", "C06", "C18", "C14"},
			Mode:  "NB", Quick: 2, Thorough: 3, Shards: 8,
			Body: func(h *H) {
				h.HangProp = "C06"
				w := h.NewWorker(kp.W, 2)
				q := w.Bind(kp.Q, nil)
				q.Add(0, AddOpt{})
				q.Add(1, AddOpt{Prio: 1})
				go func() { w.Pause(); w.Stop() }()
				h.Quiesce(true)
				h.checkStoppedLeak(w)
				q.Add(2, AddOpt{Prio: 2})
				h.Quiesce(true)
				w.Restart()
				h.End()
			},
		})
		Register(&Scenario{
			Name:  name("waitandstop/%s", kp),
			Props: []string{"C06", "C09", "C18"},
			Mode:  "NB", Quick: 2, Thorough: 3, Shards: 8,
			Body: func(h *H) {
				h.HangProp = "C06"
				w := h.NewWorker(kp.W, 2)
				q := w.Bind(kp.Q, nil)
				q.Add(0, AddOpt{})
				q.Add(1, AddOpt{})
				go func() { w.WaitAndStop() }()
				h.Quiesce(true)
				h.checkStoppedLeak(w)
				h.End()
			},
		})
		// Resume while a job is still executing: the backlog accepted during the pause must be taken up at once
		// (free slots are not to wait for the running job to finish)
		Register(&Scenario{
			Name:  name("pause-resume-busy/%s", kp),
			Props: []string{"C09", "C03", "C02", "C04"},
			Mode:  "NB", Quick: 2, Thorough: 3, Shards: 8,
			Body: func(h *H) {
				h.Shape = Gated
				w := h.NewWorker(kp.W, 2)
				q := w.Bind(kp.Q, nil)
				q.Add(0, AddOpt{})
				h.Quiesce(false)
				w.Pause()
				q.Add(1, AddOpt{Prio: 1})
				go func() { q.Add(2, AddOpt{Prio: 2}) }()
				h.Quiesce(false)
				w.Resume()
				h.Quiesce(false)
				if w.Inflight < 2 && w.RefState == "Running" {
					h.viol("C09", "C09.resume-stall", "after Resume returned the jobs accepted during the pause are not taken up although a slot is free")
				}
				h.OpenAll(0, 1, 2)
				h.End()
			},
		})
		// plain Pause: only already dispatched jobs (fewer than the limit) may still start
		Register(&Scenario{
			Name:  name("pause/%s", kp),
			Props: []string{"C09", "C01", "C03", "C04", "C17"},
			Mode:  "PB", Quick: 1, Thorough: 2, Shards: 8,
			Body: func(h *H) {
				w := h.NewWorker(kp.W, 1)
				q := w.Bind(kp.Q, nil)
				q.Add(0, AddOpt{})
				q.Add(1, AddOpt{Prio: 1})
				q.Add(2, AddOpt{Prio: 2})
				var p *Ctl
				go func() { w.Pause(); p = h.Ctls[len(h.Ctls)-1] }()
				h.Quiesce(true)
				if p != nil && p.Done && p.Err == nil {
					room := w.curLimit() - h.inflightAt(w, p.Ret)
					late := 0
					for _, jr := range h.Jobs {
						for _, s := range jr.Starts {
							if s > p.Ret {
								late++
							}
						}
					}
					if late > room {
						h.viol("C09", "C09.pause-overrun", "more jobs started after Pause returned than could have been dispatched before")
					}
				}
				q.Add(3, AddOpt{Prio: 3})
				h.Quiesce(true)
				w.Resume()
				h.End()
			},
		})
	}

	// ---- TunePool under load (C02, C03, C18, C01) ----------------------------------------------------------
	for _, kp := range []kindPair{{Plain, Fifo}, {ResW, Prio}} {
		kp := kp
		Register(&Scenario{
			Name:  name("tune-down/%s", kp),
			Props: []string{"C02", "C03", "C18", "C01", "C04", "C17"},
			Mode:  "NB", Quick: 1, Thorough: 2, Shards: 8,
			Body: func(h *H) {
				h.Shape = Gated
				w := h.NewWorker(kp.W, 3)
				q := w.Bind(kp.Q, nil)
				for i := 0; i < 5; i++ {
					q.Add(i, AddOpt{Prio: i})
				}
				h.Quiesce(false)
				go func() { w.TunePool(1) }()
				go func() { h.Open(0) }()
				h.Quiesce(false)
				if n := w.Wk.NumConcurrency(); n != 1 {
					h.viol("C02", "C02.numconcurrency", fmt.Sprintf("NumConcurrency()=%d after TunePool(1) returned", n))
				}
				h.OpenAll(1, 2, 3, 4)
				h.Quiesce(false)
				q.Add(5, AddOpt{Prio: 5})
				q.Add(6, AddOpt{Prio: 6})
				h.Quiesce(false)
				h.OpenAll(5, 6)
				h.End()
				if w.FinalIdle != 1 {
					h.viol("C18", "C18.idle-after-shrink", fmt.Sprintf("%d idle workers at rest after TunePool(1)", w.FinalIdle))
				}
			},
		})
		Register(&Scenario{
			Name:  name("tune-up/%s", kp),
			Props: []string{"C02", "C03", "C18", "C01", "C04"},
			Mode:  "NB", Quick: 2, Thorough: 3, Shards: 8,
			Body: func(h *H) {
				h.Shape = Gated
				w := h.NewWorker(kp.W, 1)
				q := w.Bind(kp.Q, nil)
				for i := 0; i < 3; i++ {
					q.Add(i, AddOpt{Prio: i})
				}
				h.Quiesce(false)
				go func() { w.TunePool(3) }()
				q.Add(3, AddOpt{Prio: 3})
				h.Quiesce(false)
				if w.Peak != 3 {
					h.viol("C18", "C18.tune-peak", fmt.Sprintf("peak of %d simultaneous jobs after TunePool(3) with 4 jobs waiting", w.Peak))
				}
				h.OpenAll(0, 1, 2, 3)
				h.End()
			},
		})
	}
	// tune-up-quiet: a raise of the limit with jobs pending and nothing else happening afterwards (no submission, no
	// completion) must by itself put the new slots to use - with and without idle-worker expiry configured (C03, C18)
	for _, kp := range []kindPair{{Plain, Fifo}, {ErrW, Prio}} {
		for _, expiry := range []bool{false, true} {
			kp, expiry := kp, expiry
			nm := name("tune-up-quiet/%s", kp)
			if expiry {
				nm += "/expiry"
			}
			Register(&Scenario{
				Name:  nm,
				Props: []string{"C03", "C18", "C02"},
				Mode:  "NB", Quick: 2, Thorough: 3, Shards: 4,
				Body: func(h *H) {
					h.Shape = Gated
					var opts []any
					if expiry {
						opts = append(opts, varmq.WithIdleWorkerExpiryDuration(time.Hour))
					}
					w := h.NewWorker(kp.W, 1, opts...)
					w.Expiry = expiry
					q := w.Bind(kp.Q, nil)
					for i := 0; i < 4; i++ {
						q.Add(i, AddOpt{Prio: i})
					}
					h.Quiesce(false)
					w.TunePool(3)
					h.Quiesce(false)
					if w.Peak != 3 {
						h.viol("C18", "C18.tune-peak", fmt.Sprintf("peak of %d simultaneous jobs after TunePool(3) with 4 jobs accepted and nothing else happening", w.Peak))
					}
					h.OpenAll(0, 1, 2, 3)
					h.End()
				},
			})
		}
	}
	// the limit set by TunePool survives Restart and Stop/Restart
	for _, viaStop := range []bool{false, true} {
		viaStop := viaStop
		nm := "tune-restart/direct"
		if viaStop {
			nm = "tune-restart/stop"
		}
		Register(&Scenario{
			Name:  nm,
			Props: []string{"C02", "C14", "C18"},
			Mode:  "NB", Quick: 1, Thorough: 2, Shards: 4,
			Body: func(h *H) {
				h.Shape = Gated
				w := h.NewWorker(ResW, 3)
				q := w.Bind(Fifo, nil)
				w.TunePool(1)
				if viaStop {
					w.Stop()
				}
				w.Restart()
				if n := w.Wk.NumConcurrency(); n != 1 {
					h.viol("C02", "C02.numconcurrency", fmt.Sprintf("NumConcurrency()=%d after TunePool(1) and Restart", n))
				}
				for i := 0; i < 3; i++ {
					q.Add(i, AddOpt{})
				}
				h.Quiesce(false)
				h.OpenAll(0, 1, 2)
				h.End()
			},
		})
	}
	// TunePool down trimming idle workers kept by a minimum-idle ratio; then Stop: nothing may be left behind
	Register(&Scenario{
		Name:  "tune-shrink",
		Props: []string{"C18", "C02", "C01"},
		Mode:  "NB", Quick: 1, Thorough: 2, Shards: 8,
		Body: func(h *H) {
			h.Shape = Gated
			w := h.NewWorker(Plain, 4, varmq.WithMinIdleWorkerRatio(50))
			q := w.Bind(Fifo, nil)
			for i := 0; i < 4; i++ {
				q.Add(i, AddOpt{})
			}
			h.Quiesce(false)
			h.OpenAll(0, 1, 2, 3)
			h.Quiesce(true)
			w.TunePool(2)
			h.Quiesce(true)
			// (how many idle workers a ratio keeps without an expiry is not part of the statement: two workers
			// finishing together may both stay; what must hold is checked generally: at least one idle worker
			// at rest, the new limit under load, and nothing left after Stop)
			for i := 4; i < 7; i++ {
				q.Add(i, AddOpt{})
			}
			h.Quiesce(false)
			h.OpenAll(4, 5, 6)
			h.Quiesce(true)
			w.Stop()
			h.Quiesce(true)
			h.checkStoppedLeak(w)
			h.End()
		},
	})
	// TunePool down racing the dispatcher's wake-up: jobs dispatched after the return obey the new limit
	for _, kp := range []kindPair{{Plain, Fifo}, {ErrW, Prio}} {
		kp := kp
		Register(&Scenario{
			Name:  name("tune-race/%s", kp),
			Props: []string{"C02", "C03", "C04", "C17"},
			Mode:  "NB", Quick: 2, Thorough: 3, Shards: 8,
			Body: func(h *H) {
				h.Shape = Gated
				w := h.NewWorker(kp.W, 2)
				q := w.Bind(kp.Q, nil)
				w.Pause()
				for i := 0; i < 3; i++ {
					q.Add(i, AddOpt{Prio: i})
				}
				go func() { w.Resume() }()
				go func() { w.TunePool(1) }()
				h.Quiesce(false)
				h.OpenAll(0, 1, 2)
				h.End()
			},
		})
	}
	// TunePool(0) = NumCPU: 17 gated jobs, at most NumCPU run together
	Register(&Scenario{
		Name:  "tune-zero",
		Props: []string{"C02", "C03"},
		Mode:  "NB", Quick: 0, Thorough: 1, Shards: 8,
		Body: func(h *H) {
			h.Shape = Gated
			w := h.NewWorker(Plain, 1)
			q := w.Bind(Fifo, nil)
			w.TunePool(0)
			n := w.Wk.NumConcurrency()
			if n < 1 || n > 256 {
				h.viol("C02", "C02.numconcurrency", "TunePool(0) did not set the concurrency to the number of CPUs")
				return
			}
			for i := 0; i <= n; i++ {
				q.Add(i, AddOpt{})
			}
			h.Quiesce(false)
			for i := 0; i <= n; i++ {
				h.Open(i)
			}
			h.End()
		},
	})
	// worker created with concurrency < 1 (NumCPU)
	Register(&Scenario{
		Name:  "conc-zero",
		Props: []string{"C02", "C03"},
		Mode:  "NB", Quick: 0, Thorough: 1, Shards: 8,
		Body: func(h *H) {
			h.Shape = Gated
			w := h.NewWorker(ResW, 0)
			q := w.Bind(Fifo, nil)
			n := w.Wk.NumConcurrency()
			if n < 1 || n > 256 {
				h.viol("C02", "C02.numconcurrency", "a concurrency below 1 did not become the number of CPUs")
				return
			}
			for i := 0; i <= n; i++ {
				q.Add(i, AddOpt{})
			}
			h.Quiesce(false)
			for i := 0; i <= n; i++ {
				h.Open(i)
			}
			h.End()
		},
	})

	// ---- second Bind, Restart while a dispatcher is mid-loop (C02, C14) ------------------------------------
	Register(&Scenario{
		Name:  "rebind-paused",
		Props: []string{"C02", "C14", "C01"},
		Mode:  "NB", Quick: 2, Thorough: 3, Shards: 8,
		Body: func(h *H) {
			w := h.NewWorker(Plain, 1)
			q := w.Bind(Fifo, nil)
			w.PauseAndWait()
			q2 := w.Bind(Prio, nil)
			if st := w.Wk.Status(); st != "Paused" {
				h.viol("C14", "C14.bind-changes-state", "binding another queue to a paused worker left it "+st)
			}
			w.Pause()
			q.Add(0, AddOpt{})
			q.Add(1, AddOpt{})
			q2.Add(2, AddOpt{})
			w.Resume()
			go func() { q.Add(3, AddOpt{}) }()
			h.End()
		},
	})
	Register(&Scenario{
		Name:  "restart-load",
		Props: []string{"C02", "C01", "C09", "C18", "C14"},
		Mode:  "NB", Quick: 2, Thorough: 3, Shards: 8,
		Body: func(h *H) {
			w := h.NewWorker(Plain, 1)
			q := w.Bind(Fifo, nil)
			q.Add(0, AddOpt{})
			q.Add(1, AddOpt{})
			go func() { w.Restart() }()
			go func() { q.Add(2, AddOpt{}) }()
			h.End()
		},
	})

	// ---- idle-worker reaper vs dispatcher (C01, C03, C18) --------------------------------------------------
	for _, kp := range []kindPair{{Plain, Fifo}, {ResW, Fifo}} {
		kp := kp
		only := ""
		if kp.W != Plain {
			only = "thorough"
		}
		Register(&Scenario{
			Name:  name("reaper/%s", kp),
			Props: []string{"C01", "C03", "C18"}, Only: only,
			Mode:  "DB", Quick: 3, Thorough: 4, Shards: 16, PoolChoice: false,
			Body: func(h *H) {
				w := h.NewWorker(kp.W, 2, varmq.WithIdleWorkerExpiryDuration(time.Second))
				w.Expiry = true
				q := w.Bind(kp.Q, nil)
				vrt.Arm(0)
				q.Add(0, AddOpt{})
				q.Add(1, AddOpt{})
				h.Quiesce(true)
				vrt.Arm(1)
				q.Add(2, AddOpt{})
				h.Quiesce(true)
				q.Add(3, AddOpt{})
				h.End()
			},
		})
	}
	// expiry with a minimum-idle ratio follows TunePool: after the periods have elapsed the idle workers beyond
	// ratio% of the *current* limit are retired, never the last one
	Register(&Scenario{
		Name:  "reaper-tune",
		Props: []string{"C18", "C02"},
		Mode:  "NB", Quick: 1, Thorough: 2, Shards: 8,
		Body: func(h *H) {
			h.Shape = Gated
			w := h.NewWorker(Plain, 4, varmq.WithIdleWorkerExpiryDuration(time.Second), varmq.WithMinIdleWorkerRatio(50))
			w.Expiry = true
			q := w.Bind(Fifo, nil)
			for i := 0; i < 4; i++ {
				q.Add(i, AddOpt{})
			}
			h.Quiesce(false)
			h.OpenAll(0, 1, 2, 3)
			h.Quiesce(true)
			w.TunePool(2)
			vrt.Arm(2)
			h.End()
			if w.FinalIdle != 1 {
				h.viol("C18", "C18.idle-after-expiry", fmt.Sprintf("%d idle workers after two expiry periods at rest, minimum ratio 50%% of the tuned limit 2", w.FinalIdle))
			}
		},
	})
	// nobody reads Errs(): failing jobs finishing together must not block the pool (the channel holds one error)
	for _, kp := range []kindPair{{ErrW, Fifo}, {ResW, Prio}, {Plain, Pers}} {
		kp := kp
		Register(&Scenario{
			Name:  name("errs-unread/%s", kp),
			Props: []string{"C03", "C07", "C05"},
			Mode:  "NB", Quick: 2, Thorough: 3, Shards: 8,
			Body: func(h *H) {
				h.Shape = Gated
				for i := 0; i < 4; i++ {
					h.Beh[i] = BErr
					if kp.W == Plain {
						h.Beh[i] = BPanic
					}
				}
				w := h.NewWorker(kp.W, 2)
				q := w.Bind(kp.Q, nil)
				q.Add(0, AddOpt{})
				h.Open(0)
				h.Quiesce(false) // the channel now holds job 0's error and nobody takes it
				q.Add(1, AddOpt{})
				q.Add(2, AddOpt{})
				h.Quiesce(false)
				go func() { h.Open(1) }()
				h.Open(2)
				h.Quiesce(false)
				q.Add(3, AddOpt{})
				h.Open(3)
				h.End()
			},
		})
	}
	// a burst arriving while the reaper is between its length check and its snapshot of the idle list
	Register(&Scenario{
		Name:  "reaper-burst",
		Props: []string{"C03", "C01", "C18"},
		Mode:  "NB", Quick: 2, Thorough: 3, Shards: 16,
		Body: func(h *H) {
			w := h.NewWorker(Plain, 2, varmq.WithIdleWorkerExpiryDuration(time.Second))
			w.Expiry = true
			q := w.Bind(Fifo, nil)
			q.Add(0, AddOpt{})
			q.Add(1, AddOpt{})
			h.Quiesce(true)
			vrt.Arm(1)
			go func() { q.Add(2, AddOpt{}); q.Add(3, AddOpt{}) }()
			h.End()
		},
	})
	Register(&Scenario{
		Name:  "reaper-trim",
		Props: []string{"C18", "C03"},
		Mode:  "NB", Quick: 2, Thorough: 3, Shards: 8,
		Body: func(h *H) {
			h.Shape = Gated
			w := h.NewWorker(Plain, 4, varmq.WithIdleWorkerExpiryDuration(time.Second), varmq.WithMinIdleWorkerRatio(50))
			w.Expiry = true
			q := w.Bind(Fifo, nil)
			vrt.Arm(0)
			for i := 0; i < 4; i++ {
				q.Add(i, AddOpt{})
			}
			h.Quiesce(false)
			h.OpenAll(0, 1, 2, 3)
			h.Quiesce(true)
			if n := w.Wk.NumIdleWorkers(); n != 4 {
				h.viol("C18", "C18.idle-before-expiry", fmt.Sprintf("%d idle workers before any expiry period elapsed, 4 finished jobs", n))
			}
			vrt.Arm(2)
			h.End()
			if w.FinalIdle != 2 {
				h.viol("C18", "C18.idle-after-expiry", fmt.Sprintf("%d idle workers after two expiry periods at rest, minimum ratio 50%% of 4", w.FinalIdle))
			}
		},
	})
}

// checkStoppedLeak: after Stop returned and the system is quiescent no library goroutine may be alive (C18),
// and the worker reports Stopped (C14).
func (h *H) checkStoppedLeak(w *W) {
	for _, c := range h.Ctls {
		if c.W == w && (c.Op == "Stop" || c.Op == "WaitAndStop") && c.Done && c.Err == nil {
			if n := vrt.LiveLib(""); n > 0 && len(h.Ws) == 1 {
				h.viol("C18", "C18.leak-after-stop", "goroutines still alive after Stop returned:"+liveNames())
			}
			if st := w.Wk.Status(); st != "Stopped" {
				h.viol("C14", "C14.status-after-stop", "Status() is "+st+" after Stop returned")
			}
			return
		}
	}
}
