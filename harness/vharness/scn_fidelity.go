package vharness

import (
	"encoding/json"
	"fmt"
	"math"
	"reflect"
	"strings"

	varmq "github.com/goptics/varmq"
	"github.com/goptics/varmq/internal/vrt"
)

// C12: payload / ID fidelity through persistent and distributed queues, isolation of undecodable entries.
// Input enumeration; every case is one execution on a fresh worker under the canonical schedule.

type fidStruct struct {
	A int               `json:"a"`
	B string            `json:"b"`
	C []float64         `json:"c"`
	D map[string]any    `json:"d"`
	E *fidStruct        `json:"e,omitempty"`
	F bool
	g int
}

func fidCase[T any](r *SeqReport, seen map[string]bool, label string, payload T, id string, via string) {
	h := NewH()
	h.NoMon = true
	var got T
	gotID, ran, ok := "", 0, false
	var ad *Adapter
	x := vrt.Run(nil, nil, nil, func() {
		ad = h.NewAdapter(via == "persprio" || via == "distprio")
		w := varmq.NewWorker(func(j varmq.Job[T]) { got, gotID = j.Data(), j.ID(); ran++ })
		var cfg []varmq.JobConfigFunc
		cfg = append(cfg, varmq.WithJobId(id))
		switch via {
		case "pers":
			ok = w.WithPersistentQueue(ad).Add(payload, cfg...)
		case "persprio":
			ok = w.WithPersistentPriorityQueue(prioAdapter{ad}).Add(payload, 3, cfg...)
		case "dist":
			w.WithDistributedQueue(ad)
			ok = varmq.NewDistributedQueue[T](ad).Add(payload, cfg...) // another process's producer
		case "distprio":
			w.WithDistributedPriorityQueue(prioAdapter{ad})
			ok = varmq.NewDistributedPriorityQueue[T](prioAdapter{ad}).Add(payload, 3, cfg...)
		}
		vrt.Quiesce()
	})
	r.Traces++
	r.Transitions += int64(len(x.Points))
	cs := fmt.Sprintf("%s id=%q via %s", label, id, via)
	add := func(clause, detail string) {
		k := clause + detail
		if !seen[k] && len(r.V) < 40 {
			seen[k] = true
			r.V = append(r.V, SeqViolation{"C12", clause, detail, cs})
		}
	}
	if x.Crash != "" {
		add("C12.crash", firstLine(x.Crash)+" @ "+x.CrashFrame)
		return
	}
	b, err := json.Marshal(payload)
	if err != nil {
		if ok || len(ad.Log) > 0 || ran > 0 {
			add("C12.unencodable", "a payload that cannot be encoded was accepted or reached the adapter")
		}
		return
	}
	var want T
	if err := json.Unmarshal(b, &want); err != nil {
		return // not round-trippable into its own type: outside the statement
	}
	if !ok || ran != 1 {
		add("C12.lost", fmt.Sprintf("a JSON-representable payload was not delivered exactly once (accepted=%v, runs=%d)", ok, ran))
		return
	}
	if !reflect.DeepEqual(got, want) {
		add("C12.payload", "the consumer saw a payload different from the JSON round-trip of the submitted value ("+typeName(payload)+")")
	}
	if gotID != id {
		add("C12.id", "the consumer saw a different job ID than the one submitted")
	}
	if len(r.Samples) < 4 && ran == 1 && len(b) > 8 {
		r.Samples = append(r.Samples, cs+" payload="+string(b))
	}
}

func typeName(v any) string { return fmt.Sprintf("%T", v) }

// badCase: n valid entries with one (or two) undecodable entries at the given positions.
func badCase(r *SeqReport, seen map[string]bool, n int, pos []int, bad any, badName, via string) {
	h := NewH()
	h.NoMon = true
	var order []int
	var errs []error
	var ad *Adapter
	x := vrt.Run(nil, nil, nil, func() {
		ad = h.NewAdapter(false)
		vi := 0
		for i := 0; i < n+len(pos); i++ {
			isBad := false
			for _, p := range pos {
				if p == i {
					isBad = true
				}
			}
			if isBad {
				ad.PushRaw(bad)
			} else {
				ad.PushRaw([]byte(fmt.Sprintf(`{"id":"v%d","status":"Queued","data":%d}`, vi, vi)))
				vi++
			}
		}
		w := varmq.NewWorker(func(j varmq.Job[int]) {
			if j.ID() == fmt.Sprintf("v%d", j.Data()) {
				order = append(order, j.Data())
			} else {
				order = append(order, -1)
			}
		})
		if via == "dist" {
			w.WithDistributedQueue(ad)
		} else {
			w.WithPersistentQueue(ad)
		}
		go func() {
			for e := range w.Errs() {
				errs = append(errs, e)
			}
		}()
		vrt.Quiesce()
	})
	r.Traces++
	r.Transitions += int64(len(x.Points))
	cs := fmt.Sprintf("%d valid entries, %s at %v, via %s", n, badName, pos, via)
	add := func(clause, detail string) {
		k := clause + detail
		if !seen[k] && len(r.V) < 40 {
			seen[k] = true
			r.V = append(r.V, SeqViolation{"C12", clause, detail, cs})
		}
	}
	if x.Crash != "" {
		add("C12.crash", firstLine(x.Crash)+" @ "+x.CrashFrame)
		return
	}
	for _, v := range order {
		if v == -1 || v >= n {
			add("C12.bad-ran", fmt.Sprintf("a stored entry that is not one valid job envelope (%s) was executed as a job", badName))
			return
		}
	}
	if len(order) != n {
		add("C12.bad-blocks", fmt.Sprintf("an undecodable entry (%s) kept valid jobs behind it from running", badName))
		return
	}
	for i, v := range order {
		if v != i {
			add("C12.bad-reorders", fmt.Sprintf("an undecodable entry (%s) reordered or corrupted the valid jobs around it", badName))
			return
		}
	}
	if len(errs) == 0 {
		add("C12.bad-silent", fmt.Sprintf("an undecodable entry (%s) was not reported as an error", badName))
	}
	if len(r.Samples) < 6 && len(pos) == 1 && pos[0] == 1 && n == 2 {
		r.Samples = append(r.Samples, cs)
	}
}
// fidSeq: several payloads submitted back to back, so that their stored entries are pending together (the consumer runs
// only at the quiescence after the last submission; the adapter keeps the byte slices it is handed, as an in-memory
// store may). Each must arrive once, in order, with its own ID and payload. ids[i] == "" submits without WithJobId:
// the consuming worker's ID generator names the job on the persistent paths, a producer of its own (distributed
// paths) has none.
func fidSeq[T any](r *SeqReport, seen map[string]bool, label string, payloads []T, ids []string, via string) {
	h := NewH()
	h.NoMon = true
	var got []T
	var gotID []string
	oks := 0
	gen := 0
	x := vrt.Run(nil, nil, nil, func() {
		ad := h.NewAdapter(via == "persprio" || via == "distprio")
		w := varmq.NewWorker(func(j varmq.Job[T]) { got, gotID = append(got, j.Data()), append(gotID, j.ID()) },
			varmq.WithJobIdGenerator(func() string { gen++; return fmt.Sprintf("gen-%d", gen) }))
		var addP func(T, ...varmq.JobConfigFunc) bool
		switch via {
		case "pers":
			addP = w.WithPersistentQueue(ad).Add
		case "persprio":
			q := w.WithPersistentPriorityQueue(prioAdapter{ad})
			addP = func(v T, c ...varmq.JobConfigFunc) bool { return q.Add(v, 3, c...) }
		case "dist":
			w.WithDistributedQueue(ad)
			addP = varmq.NewDistributedQueue[T](ad).Add
		case "distprio":
			w.WithDistributedPriorityQueue(prioAdapter{ad})
			q := varmq.NewDistributedPriorityQueue[T](prioAdapter{ad})
			addP = func(v T, c ...varmq.JobConfigFunc) bool { return q.Add(v, 3, c...) }
		}
		for i, v := range payloads {
			var cfg []varmq.JobConfigFunc
			if ids[i] != "" {
				cfg = append(cfg, varmq.WithJobId(ids[i]))
			}
			if addP(v, cfg...) {
				oks++
			}
		}
		vrt.Quiesce()
	})
	r.Traces++
	r.Transitions += int64(len(x.Points))
	cs := fmt.Sprintf("%s x%d ids=%q via %s", label, len(payloads), ids, via)
	add := func(clause, detail string) {
		k := clause + detail
		if !seen[k] && len(r.V) < 40 {
			seen[k] = true
			r.V = append(r.V, SeqViolation{"C12", clause, detail, cs})
			if clause == "C12.id" || clause == "C12.generator" {
				r.V = append(r.V, SeqViolation{"C07", "C07.identity", detail, cs})
			}
		}
	}
	if x.Crash != "" {
		add("C12.crash", firstLine(x.Crash)+" @ "+x.CrashFrame)
		return
	}
	if oks != len(payloads) || len(got) != len(payloads) {
		add("C12.lost", fmt.Sprintf("of %d JSON-representable payloads pending together %d were accepted and %d delivered", len(payloads), oks, len(got)))
		return
	}
	for i, v := range payloads {
		b, _ := json.Marshal(v)
		var want T
		json.Unmarshal(b, &want)
		if !reflect.DeepEqual(got[i], want) {
			add("C12.payload", "with several entries pending together the consumer saw a payload different from the JSON round-trip of the submitted value ("+typeName(v)+")")
		}
		wantID := ids[i]
		if wantID == "" && (via == "pers" || via == "persprio") {
			// (the generator may be consulted more often than once per ID-less job: any value of its own, used once, will do)
			okGen := strings.HasPrefix(gotID[i], "gen-") && len(gotID[i]) > 4
			for k := range gotID {
				if k != i && gotID[k] == gotID[i] {
					okGen = false
				}
			}
			if !okGen {
				add("C12.generator", "a job submitted without an ID through a persistent queue did not get an ID of its own from the worker's generator")
			}
			continue
		}
		if gotID[i] != wantID {
			add("C12.id", "with several entries pending together the consumer saw a different job ID than the one submitted")
		}
	}
}


func init() {
	run := func(r *SeqReport, deep bool) {
		seen := map[string]bool{}
		ids := []string{"", "a", "job-ü-✓", "q\"uo\\te", "line\u2028sep\nnl\ttab", strings.Repeat("x", 300), "ctl\x00\x01\a\v\x1b\x7f", "\U000e0001<&>"}
		vias := []string{"pers", "persprio", "dist", "distprio"}
		for _, via := range vias {
			for _, id := range ids {
				for _, s := range []string{"", "plain", "esc\"\\/\b\f\n\r\t", "ünï©ode ✓ 日本", "  <>&", "\x00\x01"} {
					fidCase(r, seen, "string", s, id, via)
				}
				for _, v := range []int64{0, 1, -1, math.MaxInt64, math.MinInt64, 1<<53 + 1} {
					fidCase(r, seen, "int64", v, id, via)
				}
				fidCase(r, seen, "uint64", uint64(math.MaxUint64), id, via)
				for _, v := range []float64{0, math.Copysign(0, -1), 1.5, 1e21, 5e-324, math.MaxFloat64, math.NaN(), math.Inf(1)} {
					fidCase(r, seen, "float64", v, id, via)
				}
				fidCase(r, seen, "bool", true, id, via)
				fidCase(r, seen, "bool", false, id, via)
				fidCase(r, seen, "[]any", []any{1, "two", 3.5, nil, []any{true, map[string]any{"k": []any{}}}}, id, via)
				fidCase(r, seen, "[]any(nil)", []any(nil), id, via)
				fidCase(r, seen, "[]int", []int{}, id, via)
				fidCase(r, seen, "[]byte", []byte{0, 1, 255}, id, via)
				fidCase(r, seen, "map", map[string]any{"a": 1, "b": map[string]any{"c": []any{1, 2}}, "": nil}, id, via)
				fidCase(r, seen, "map(nil)", map[string]int(nil), id, via)
				fidCase(r, seen, "struct", fidStruct{A: 7, B: "b", C: []float64{1, 2.5}, D: map[string]any{"x": "y"}, E: &fidStruct{A: 8}, F: true, g: 5}, id, via)
				fidCase(r, seen, "*struct", &fidStruct{A: 9, B: "p"}, id, via)
				fidCase(r, seen, "*struct(nil)", (*fidStruct)(nil), id, via)
				fidCase[any](r, seen, "any(int)", 5, id, via)
				fidCase[any](r, seen, "any(nil)", nil, id, via)
				fidCase[any](r, seen, "any(big)", int64(1<<53+1), id, via)
				fidCase[any](r, seen, "any(nested)", map[string]any{"l": []any{1, "x", map[string]any{"deep": []any{nil}}}}, id, via)
				fidCase(r, seen, "chan", make(chan int), id, via)
				fidCase(r, seen, "func", func() {}, id, via)
				fidCase(r, seen, "map[int]func", map[string]any{"f": func() {}}, id, via)
				if !deep {
					ids = ids[:len(ids)] // (quick and thorough use the same alphabet; thorough adds depth below)
				}
			}
		}
		if deep {
			// nested depth 4 and wider alphabets
			var nest any = "leaf"
			for d := 0; d < 4; d++ {
				nest = map[string]any{"n": []any{nest, d}}
				for _, via := range vias {
					fidCase[any](r, seen, fmt.Sprintf("any(depth %d)", d+1), nest, "deep", via)
				}
			}
		}
		// pairs and triples pending together: every ordered pair of the string and integer alphabets, structs, mixed IDs
		allVias := []string{"pers", "persprio", "dist", "distprio"}
		strs := []string{"", "plain", "plaim", "esc\"\\/\b\f\n\r\t", "ünï©ode ✓ 日本", "a much longer payload than the others, to make the buffer grow"}
		ints := []int64{0, 1, -1, 22, math.MaxInt64, math.MinInt64}
		for _, via := range allVias {
			for _, idp := range [][]string{{"a", "b", "c"}, {"", "", ""}, {"x", "", "a-longer-id"}} {
				for _, a := range strs {
					for _, b := range strs {
						fidSeq(r, seen, "string", []string{a, b}, idp[:2], via)
					}
				}
				for _, a := range ints {
					for _, b := range ints {
						fidSeq(r, seen, "int64", []int64{a, b}, idp[:2], via)
					}
				}
				fidSeq(r, seen, "struct", []fidStruct{{A: 1, B: "one", C: []float64{1}}, {A: 2}, {A: 3, B: "three", D: map[string]any{"k": "v"}}}, idp, via)
				fidSeq(r, seen, "*struct", []*fidStruct{{A: 1, E: &fidStruct{A: 11}}, nil, {A: 3}}, idp, via)
				fidSeq[any](r, seen, "any", []any{map[string]any{"a": 1}, nil, []any{1, 2}}, idp, via)
				fidSeq(r, seen, "map", []map[string]int{{"a": 1, "b": 2}, {}, {"c": 3}}, idp, via)
			}
		}
		bads := []struct {
			name string
			v    any
		}{
			{"garbage bytes", []byte("{{{")}, {"unknown status", []byte(`{"id":"x","status":"Bogus","data":1}`)}, {"foreign JSON array", []byte(`[1,2,3]`)},
			{"JSON string", []byte(`"str"`)}, {"empty entry", []byte("")}, {"payload of another type", []byte(`{"id":"x","status":"Created","data":"notanint"}`)},
			{"non-byte entry", 12345}, {"string entry", "raw"},
			{"valid envelope followed by junk", []byte(`{"id":"ghost","status":"Created","data":77}xyz`)},
			{"two envelopes glued together", []byte(`{"id":"ghost","status":"Created","data":77}{"id":"ghost2","status":"Created","data":78}`)},
			{"valid envelope followed by a stale tail", []byte(`{"id":"ghost","status":"Queued","data":77}","data":123456}`)},
		}
		for _, via := range []string{"pers", "dist"} {
			for _, b := range bads {
				for n := 0; n <= 3; n++ {
					for p := 0; p <= n; p++ {
						badCase(r, seen, n, []int{p}, b.v, b.name, via)
					}
				}
				badCase(r, seen, 2, []int{0, 2}, b.v, "two x "+b.name, via)
				badCase(r, seen, 2, []int{1, 2}, b.v, "two adjacent x "+b.name, via)
			}
		}
		r.States, r.Distinct, r.MaxDepth = r.Traces, r.Traces, 4
		r.Exhaustive = true
	}
	Register(&Scenario{Name: "seq-fidelity/quick", Props: []string{"C12", "C07"}, Seq: true, Only: "quick", SeqRun: func(r *SeqReport) {
		run(r, false)
		r.Notes = append(r.Notes, "payload shapes x value alphabet x 8 IDs x {persistent, persistent-priority, distributed, distributed-priority}; every ordered pair of strings / integers and triples of structured values pending together, with explicit, generated and absent IDs; 11 kinds of bad entries at every position among <= 3 valid ones")
	}})
	Register(&Scenario{Name: "seq-fidelity/thorough", Props: []string{"C12", "C07"}, Seq: true, Only: "thorough", SeqRun: func(r *SeqReport) {
		run(r, true)
		r.Notes = append(r.Notes, "as quick, plus nesting depth 4")
	}})
}
