package vharness

import (
	"fmt"

	"github.com/goptics/varmq/internal/vrt"
)

// ctlpair: every unordered pair of control calls running concurrently, from four base states, under every schedule
// within the bound. The statements are about sequential call sequences, so no particular outcome of the pair is
// demanded - only what must hold whichever call "wins": at rest a worker that reports Stopped (a Stop having returned
// nil and nothing restarted it since) has no goroutine left (C18), one that reports Running processes a submitted job
// and one that does not report Running leaves it pending (C14), the pool is within the configured size (C18, rest
// clause), both calls return (C06), and after a final Restart every accepted job has run exactly once (C01).
var ctlOps = []string{"Pause", "PauseAndWait", "Resume", "Stop", "WaitAndStop", "Restart", "TuneUp", "TuneDown"}

func doCtl(w *W, op string) {
	switch op {
	case "Pause":
		w.Pause()
	case "PauseAndWait":
		w.PauseAndWait()
	case "Resume":
		w.Resume()
	case "Stop":
		w.Stop()
	case "WaitAndStop":
		w.WaitAndStop()
	case "Restart":
		w.Restart()
	case "TuneUp":
		w.TunePool(3)
	case "TuneDown":
		w.TunePool(1)
	}
}

func init() {
	for _, base := range []string{"idle", "busy", "paused", "stopped"} {
		for i := range ctlOps {
			for k := i; k < len(ctlOps); k++ {
				base, a, b := base, ctlOps[i], ctlOps[k]
				// the pairs that tear a run down or rebuild it get two deviations already in the quick tier (both defects
				// this family found on the tree before its fixes need a call to land inside another's teardown)
				quick := 1
				heavy := func(o string) bool { return o == "Stop" || o == "WaitAndStop" || o == "Restart" }
				if (heavy(a) || heavy(b)) && (base == "paused" || base == "busy") {
					quick = 2
				}
				thorough := 2
				if quick == 2 && base == "paused" {
					thorough = 3
				}
				Register(&Scenario{
					Name:  name("ctlpair/%s/%s+%s", base, a, b),
					Props: []string{"C14", "C18", "C06", "C01", "C09", "C03"},
					Mode:  "NB", Quick: quick, Thorough: thorough, Shards: 4,
					Body: func(h *H) {
						h.Shape = Gated
						h.HangProp = "C06"
						w := h.NewWorker(Plain, 2)
						q := w.Bind(Fifo, nil)
						switch base {
						case "busy":
							q.Add(0, AddOpt{})
							q.Add(1, AddOpt{})
							q.Add(2, AddOpt{})
							h.Quiesce(false)
						case "paused":
							w.Pause()
							q.Add(0, AddOpt{})
						case "stopped":
							w.Stop()
							q.Add(0, AddOpt{})
						}
						go func() { doCtl(w, a) }()
						go func() { doCtl(w, b) }()
						h.Quiesce(false)
						for t := 0; t < 3; t++ {
							h.Open(t)
						}
						h.Quiesce(true)
						if !h.ctlInProgress(w) {
							st := w.Wk.Status()
							if st == "Stopped" {
								stopOK, restarted := false, false
								for _, c := range h.Ctls {
									if c.W == w && c.Call > h.Quiets[0].Seq {
										if (c.Op == "Stop" || c.Op == "WaitAndStop") && c.Err == nil {
											stopOK = true
										}
										if c.Op == "Restart" {
											restarted = true
										}
									}
								}
								if n := vrt.LiveLib(""); n > 0 && (stopOK || !restarted) {
									h.viol("C18", "C18.leak-after-stop", "the worker reports Stopped at rest with goroutines of its own still alive:"+liveNames())
								}
							}
							if w.Wk.IsRunning() != (st == "Running") || w.Wk.IsPaused() != (st == "Paused") || w.Wk.IsStopped() != (st == "Stopped") {
								h.viol("C14", "C14.predicates", "IsRunning/IsPaused/IsStopped disagree with Status() "+st)
							}
							h.Open(99)
							p := q.Add(99, AddOpt{})
							h.Quiesce(true)
							ran := len(p.Starts) > 0
							if st == "Running" && !ran {
								h.viol("C14", "C14.probe", fmt.Sprintf("after %s and %s ran concurrently the worker reports Running at rest but does not process a submitted job", a, b))
							}
							if st != "Running" && ran {
								h.viol("C14", "C14.probe-ran", fmt.Sprintf("after %s and %s ran concurrently the worker reports %s at rest but processed a submitted job", a, b, st))
							}
						}
						w.Restart()
						h.End()
					},
				})
			}
		}
	}
}

// ctltriple: a teardown call with a Resume and a Pause coming and going around it, from the paused base with a job
// pending (the Resume / Pause pair can dispatch a job between the teardown's wait and its claim of the status).
func init() {
	for _, a := range []string{"Stop", "WaitAndStop", "Restart"} {
		a := a
		Register(&Scenario{
			Name:  name("ctltriple/paused/%s+Resume+Pause", a),
			Props: []string{"C06", "C14", "C18", "C09", "C01"},
			Mode:  "NB", Quick: 2, Thorough: 3, Shards: 8,
			Body: func(h *H) {
				h.Shape = Gated
				h.HangProp = "C06"
				w := h.NewWorker(Plain, 2)
				q := w.Bind(Fifo, nil)
				w.Pause()
				q.Add(0, AddOpt{})
				go func() { doCtl(w, a) }()
				go func() { w.Resume(); w.Pause() }()
				h.Quiesce(false)
				h.Open(0)
				h.Quiesce(true)
				if !h.ctlInProgress(w) && w.Wk.Status() == "Stopped" {
					if n := vrt.LiveLib(""); n > 0 {
						h.viol("C18", "C18.leak-after-stop", "the worker reports Stopped at rest with goroutines of its own still alive:"+liveNames())
					}
				}
				w.Restart()
				h.End()
			},
		})
	}
}

