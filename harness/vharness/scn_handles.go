package vharness

import (
	"fmt"
	"strings"

	varmq "github.com/goptics/varmq"
	"github.com/goptics/varmq/internal/vrt"
)

// Scenario families around job handles, outcomes / panics and batches.

func behName(b []int) string {
	s := ""
	for _, x := range b {
		s += string("vep"[x])
	}
	return s
}

// finalMetrics checks Failed/Successful against the behaviours of the finished jobs (C07), inside the execution.
func (h *H) finalMetrics(w *W) {
	okN, failN := 0, 0
	for _, jr := range h.Jobs {
		if jr.W != w || len(jr.Ends) == 0 {
			continue
		}
		fails := jr.Beh == BPanic || (jr.Beh == BErr && w.Kind != Plain)
		if fails {
			failN++
		} else {
			okN++
		}
	}
	m := w.Wk.Metrics()
	if int(m.Failed()) != failN || int(m.Successful()) != okN {
		h.viol("C07", "C07.metrics", fmt.Sprintf("Failed()=%d Successful()=%d at rest with %d failed and %d successful invocations", m.Failed(), m.Successful(), failN, okN))
	}
}

func init() {
	// ---- outcomes: every assignment of value / error / panic to n <= 3 jobs (C07, C05, C03) --------------------
	for _, wk := range []WK{Plain, ErrW, ResW} {
		wk := wk
		var assigns [][]int
		for a := 0; a < 3; a++ {
			assigns = append(assigns, []int{a})
			for b := 0; b < 3; b++ {
				assigns = append(assigns, []int{a, b})
				for c := 0; c < 3; c++ {
					assigns = append(assigns, []int{a, b, c})
				}
			}
		}
		for _, as := range assigns {
			as := as
			for _, c := range []int{1, 2} {
				c := c
				if len(as) == 1 && c == 2 {
					continue
				}
				qk := Fifo
				if (len(as)+c)%2 == 0 {
					qk = Prio
				}
				Register(&Scenario{
					Name:  name("outcomes/%s-%s/%s/c%d", wk, qk, behName(as), c),
					Props: []string{"C07", "C05", "C03", "C17"},
					Mode:  "NB", Quick: 1, Thorough: 2, Shards: 1,
					Body: func(h *H) {
						h.CrashProp = "C07"
						for i, b := range as {
							h.Beh[i] = b
						}
						w := h.NewWorker(wk, c)
						q := w.Bind(qk, nil)
						var js []*JobRec
						for i := range as {
							js = append(js, q.Add(i, AddOpt{WithID: i%2 == 0, EmptyID: i == 1}))
						}
						for _, j := range js {
							j := j
							go func() {
								switch wk {
								case ResW:
									v1, e1 := h.Result(j)
									v2, e2 := h.Result(j)
									if v1 != v2 || errStr(e1) != errStr(e2) {
										h.viol("C07", "C07.repeat", "two Result calls on one handle disagree")
									}
								case ErrW:
									e1 := h.Err(j)
									e2 := h.Err(j)
									if errStr(e1) != errStr(e2) {
										h.viol("C07", "C07.repeat", "two Err calls on one handle disagree")
									}
								default:
									h.Wait(j)
								}
							}()
						}
						h.Quiesce(true)
						// a sole failure must be on the worker's error channel
						nfail, failTag := 0, -1
						for i, b := range as {
							if b == BPanic || (b == BErr && wk != Plain) {
								nfail++
								failTag = i
							}
						}
						if nfail == 1 {
							select {
							case e := <-w.Wk.Errs():
								want := fmt.Sprintf("err%d", failTag)
								if as[failTag] == BPanic {
									want = panicText(failTag)
								}
								if e == nil || !strings.Contains(e.Error(), want) {
									h.viol("C07", "C07.errs", "the error channel carries "+errStr(e)+" instead of the failed job's error")
								}
							default:
								h.viol("C07", "C07.errs", "a sole failure was not offered on the error channel")
							}
						}
						h.finalMetrics(w)
						h.End()
					},
				})
			}
		}
	}

	// ---- waiters placed before / during / after execution, with Close racing (C05, C07, C10) ----------------
	for _, kp := range []kindPair{{ResW, Fifo}, {ErrW, Prio}, {Plain, Fifo}} {
		kp := kp
		Register(&Scenario{
			Name:  name("waiters/%s", kp),
			Props: []string{"C05", "C07", "C16"},
			Mode:  "NB", Quick: 2, Thorough: 3, Shards: 8,
			Body: func(h *H) {
				h.HangProp = "C05"
				h.Beh[1] = BErr
				w := h.NewWorker(kp.W, 2)
				q := w.Bind(kp.Q, nil)
				j0 := q.Add(0, AddOpt{})
				j1 := q.Add(1, AddOpt{})
				wait := func(j *JobRec) {
					switch kp.W {
					case ResW:
						h.Result(j)
					case ErrW:
						h.Err(j)
					default:
						h.Wait(j)
					}
				}
				go func() { wait(j0); h.Wait(j0) }()
				go func() { wait(j0) }()
				go func() { h.Wait(j1); wait(j1) }()
				h.Quiesce(true)
				wait(j0)
				wait(j1)
				h.End()
			},
		})
		Register(&Scenario{
			Name:  name("waiters-cancel/%s", kp),
			Props: []string{"C05", "C10", "C16"},
			Mode:  "NB", Quick: 2, Thorough: 3, Shards: 8,
			Body: func(h *H) {
				h.HangProp = "C05"
				h.CrashProp = "C10"
				w := h.NewWorker(kp.W, 1)
				q := w.Bind(kp.Q, nil)
				q.Add(0, AddOpt{})
				j1 := q.Add(1, AddOpt{Prio: 1})
				go func() { h.CloseJob(j1) }()
				go func() { h.Wait(j1) }()
				go func() {
					switch kp.W {
					case ResW:
						h.Result(j1)
					case ErrW:
						h.Err(j1)
					default:
						h.Wait(j1)
					}
				}()
				h.End()
			},
		})
	}

	// ---- Func / ErrFunc / ResultFunc helpers, also with nil functions (C07) ---------------------------------
	Register(&Scenario{
		Name:  "funcs",
		Props: []string{"C07"},
		Mode:  "NB", Quick: 1, Thorough: 2, Shards: 1,
		Body: func(h *H) {
			h.NoMon = true
			h.CrashProp = "C07"
			ran := 0
			q1 := varmq.NewWorker(varmq.Func()).BindQueue()
			a, _ := q1.Add(func() { ran++ })
			b, _ := q1.Add(nil)
			c, _ := q1.Add(func() { ran += 10 })
			q2 := varmq.NewErrWorker(varmq.ErrFunc()).BindQueue()
			e1, _ := q2.Add(func() error { return fmt.Errorf("e1") })
			e2, _ := q2.Add(nil)
			e3, _ := q2.Add(func() error { return nil })
			q3 := varmq.NewResultWorker(varmq.ResultFunc[int]()).BindQueue()
			r1, _ := q3.Add(func() (int, error) { return 7, nil })
			r2, _ := q3.Add(nil)
			r3, _ := q3.Add(func() (int, error) { return 0, fmt.Errorf("e3") })
			h.Quiesce(true)
			a.Wait()
			b.Wait()
			c.Wait()
			if ran != 11 {
				h.viol("C07", "C07.funcs", fmt.Sprintf("Func worker: side effects %d, want 11 (a nil function must not disable the pool)", ran))
			}
			if m := q1.Worker().Metrics(); m.Failed() != 1 || m.Successful() != 2 {
				h.viol("C07", "C07.funcs", "Func worker: a nil function is not counted as exactly one failure")
			}
			if e := e1.Err(); e == nil || e.Error() != "e1" {
				h.viol("C07", "C07.funcs", "ErrFunc: wrong error for a failing function")
			}
			if e := e2.Err(); e == nil {
				h.viol("C07", "C07.funcs", "ErrFunc: nil function reported success")
			}
			if e := e3.Err(); e != nil {
				h.viol("C07", "C07.funcs", "ErrFunc: succeeding function reported "+e.Error())
			}
			if v, e := r1.Result(); v != 7 || e != nil {
				h.viol("C07", "C07.funcs", "ResultFunc: wrong result for a succeeding function")
			}
			if _, e := r2.Result(); e == nil {
				h.viol("C07", "C07.funcs", "ResultFunc: nil function reported success")
			}
			if _, e := r3.Result(); e == nil || e.Error() != "e3" {
				h.viol("C07", "C07.funcs", "ResultFunc: wrong error for a failing function")
			}
			h.Final = true
		},
	})

	// ---- batches (C08, C05, C01, C16) ------------------------------------------------------------------------
	for _, kp := range memKinds() {
		kp := kp
		for n := 0; n <= 3; n++ {
			n := n
			for _, c := range []int{1, 2, 3} {
				c := c
				if c > max(n, 1) {
					continue
				}
				// C08 runs every kind; the other properties a representative half (the AddAll bodies are copy-pasted
				// per worker kind x queue kind, the completion path is shared)
				props := []string{"C08", "C07"}
				if (kp.W == ResW && kp.Q == Fifo) || (kp.W == ErrW && kp.Q == Prio) || (kp.W == Plain && kp.Q == Fifo) {
					props = append(props, "C05", "C16", "C17")
					if n == 3 && c >= 2 {
						props = append(props, "C01")
					}
				}
				if n == 2 && c == 1 {
					props = append(props, "C01") // identity of ID-less items on every AddAll body
				}
				quick := 2
				if n == 3 && c >= 2 {
					quick = 1 // four or more runnable threads: NB2 is the thorough bound
				}
				Register(&Scenario{
					Name:  name("batch/%s/n%dc%d", kp, n, c),
					Props: props,
					Mode:  "NB", Quick: quick, Thorough: 3, Shards: 4,
					Body: func(h *H) {
						h.CrashProp = "C08"
						h.HangProp = "C08"
						if n >= 2 {
							h.Beh[1] = BErr
						}
						if n >= 3 {
							h.Beh[2] = BPanic
						}
						w := h.NewWorker(kp.W, c)
						q := w.Bind(kp.Q, nil)
						tags := make([]int, n)
						prios := make([]int, n)
						for i := range tags {
							tags[i], prios[i] = i, n-i
						}
						// the second item (and the third of three) carries no ID of its own
						b := q.AddAllIDs(tags, prios, map[int]bool{1: true, 2: n == 3})
						if b.Results != nil || b.Errs != nil {
							go func() { h.ReadStream(b) }()
						}
						go func() { h.BatchWait(b) }()
						h.End()
					},
				})
			}
		}
	}
	// batch with the queue closed mid-batch (rejected items) or purged while pending
	for _, kp := range memKinds() {
		kp := kp
		Register(&Scenario{
			Name:  name("batch-qclose/%s", kp),
			Props: []string{"C08", "C10", "C05", "C17"},
			Mode:  "NB", Quick: 2, Thorough: 3, Shards: 8,
			Body: func(h *H) {
				h.CrashProp = "C08"
				h.HangProp = "C08"
				w := h.NewWorker(kp.W, 2)
				q := w.Bind(kp.Q, nil)
				go func() { q.Close() }()
				vrt.Point(vrt.OpPlain, nil, nil) // Close may also run to completion before AddAll is called
				b := q.AddAll([]int{0, 1, 2}, nil)
				if b.Results != nil || b.Errs != nil {
					go func() { h.ReadStream(b) }()
				}
				go func() { h.BatchWait(b) }()
				h.End()
				// executed items form a prefix of the batch
				seenGap := false
				for _, t := range b.Tags {
					ran := len(h.jobByTag[t].Starts) > 0
					if !ran {
						seenGap = true
					} else if seenGap {
						h.viol("C10", "C10.qclose-order", "an item was accepted after an earlier item of the same batch had been rejected")
					}
				}
			},
		})
		Register(&Scenario{
			Name:  name("batch-purge/%s", kp),
			Props: []string{"C08", "C10", "C05"},
			Mode:  "NB", Quick: 2, Thorough: 3, Shards: 8,
			Body: func(h *H) {
				h.CrashProp = "C08"
				h.HangProp = "C08"
				w := h.NewWorker(kp.W, 1)
				q := w.Bind(kp.Q, nil)
				b := q.AddAll([]int{0, 1, 2}, nil)
				go func() { q.Purge() }()
				if b.Results != nil || b.Errs != nil {
					go func() { h.ReadStream(b) }()
				}
				go func() { h.BatchWait(b) }()
				h.End()
			},
		})
	}
}
