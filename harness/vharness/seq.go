package vharness

// SeqReport is filled by sequential (engine B) scenarios: explicit-state search over operation sequences
// or inputs with the implementation as the transition function and a reference model stepped alongside.
type SeqReport struct {
	States      int64    // distinct canonical states
	Transitions int64    // implementation steps taken
	Traces      int64    // operation sequences replayed against the implementation
	MaxDepth    int
	Distinct    int64    // distinct non-trivial cases
	Samples     []string // a few cases written out
	V           []SeqViolation
	Notes       []string
	Exhaustive  bool
}

type SeqViolation struct {
	Prop, Clause, Detail string
	Case                 string // the operation sequence / input that fails (replayable by name)
}
