// Package vharness contains the scenarios and oracles that the explorer runs against the instrumented
// varmq code. It uses the public API only (plus the generated capacity setter of internal/queues), so
// that it keeps compiling against changed library code.
package vharness

import (
	"os"
	"errors"
	"fmt"
	"sort"
	"strings"

	varmq "github.com/goptics/varmq"
	"github.com/goptics/varmq/internal/vrt"
)

// ---------------------------------------------------------------------------------------------
// kinds

type WK int

const (
	Plain WK = iota
	ErrW
	ResW
)

func (k WK) String() string { return [...]string{"plain", "err", "res"}[k] }

type QK int

const (
	Fifo QK = iota
	Prio
	Pers
	PersPrio
	Dist
	DistPrio
	Cust     // a user-supplied FIFO that also implements IAcknowledgeable, bound with WithQueue
	CustPrio // the same for WithPriorityQueue
)

func (k QK) String() string {
	return [...]string{"fifo", "prio", "pers", "persprio", "dist", "distprio", "cust", "custprio"}[k]
}
func (k QK) IsPrio() bool    { return k == Prio || k == PersPrio || k == DistPrio || k == CustPrio }
func (k QK) IsAdapter() bool { return k >= Pers }
func (k QK) IsCustom() bool  { return k == Cust || k == CustPrio }

// job behaviours
const (
	BVal = iota
	BErr
	BPanic
)

// worker-function shapes
const (
	Instant = iota
	Yielding
	Gated
)

// ---------------------------------------------------------------------------------------------
// event log

type Ev struct {
	Seq int
	K   string // call ret start end mark
	T   int    // thread
	Op  string
	Job int
	Res string
}

func (e Ev) String() string {
	s := fmt.Sprintf("%d t%d %s", e.Seq, e.T, e.K)
	if e.Op != "" {
		s += " " + e.Op
	}
	if e.Job >= 0 {
		s += fmt.Sprintf(" j%d", e.Job)
	}
	if e.Res != "" {
		s += " -> " + e.Res
	}
	return s
}

type CloseRec struct {
	Call, Ret int
	Err       error
	Done      bool
}

type HandleCall struct {
	Op        string
	Job       int
	Batch     int
	Call, Ret int
	Val       int
	Err       error
	Done      bool
	T         int
}

type Ctl struct {
	OldUnfinished int // TunePool: dispatched and unfinished jobs at the return
	Op        string
	Arg       int
	Call, Ret int
	Err       error
	Done      bool
	T         int
	W         *W
}

type JobRec struct {
	Tag      int
	W        *W
	Q        *Q
	Prio     int
	WantID   string // "" = do not check
	Batch    *BatchRec
	AddCall  int
	AddRet   int
	Accepted bool
	RejectHandle bool // a rejected Add nevertheless returned a non-nil handle
	Rejected bool
	Starts   []int
	Ends     []int
	StartW   []*W
	SeenID   []string
	SeenData []int
	Closes   []*CloseRec
	H        varmq.EnqueuedJob // nil for adapter queues and batch items
	ErrF     func() error
	ResF     func() (int, error)
	St       interface{ Status() string } // status source (handle or the object seen inside the worker function)
	lastRank int
	FinalStatus string
	waitRet  int // seq at which a Wait/Result/Err on this job returned (0 = none)
	Beh      int
}

type BatchRec struct {
	ID        int
	Tags      []int
	W         *W
	Q         *Q
	AddCall   int
	AddRet    int
	NumPend   func() int
	WaitF     func()
	Results   func() <-chan varmq.Result[int]
	Errs      func() <-chan error
	Drain     func()
	Got       []varmq.Result[int] // results read from the stream
	GotErrs   []error
	FinalPend int
	StreamEnd int // seq at which the reader saw the stream closed (0 = not yet)
	WaitRet   int
}

// H is the per-execution harness state. Only one thread runs at a time, so it needs no locking in
// normal mode; in race mode accesses to it are filtered out of the reports by frame.
type H struct {
	seq      int
	Events   []Ev
	hist     uint64
	Jobs     []*JobRec
	jobByTag map[int]*JobRec
	Batches  []*BatchRec
	Ctls     []*Ctl
	HCalls   []*HandleCall
	Ws       []*W
	Shape    int
	gates    map[int]chan struct{}
	GateAll  chan struct{}
	Beh      map[int]int
	curAdd   map[int]int // thread id -> tag being added (for the ID generator)
	Marks    map[string]int
	Quiets   []Quiet
	V        []vrt.Violation
	vseen    map[string]bool
	Final    bool // the scenario reached its final quiescence with every gate open and the worker running
	NoMon    bool
	opened   map[int]bool // gates opened by an enumeration step
	NoRest   bool
	Purges   []*Ctl
	Adapters []*Adapter
	QCloses  []*Ctl
	Notes    []string
	inCall   map[int]string // thread id -> API operation in progress
	Extra    func(h *H, x *vrt.Exec) // scenario-specific final oracle
	MonExtra func(h *H)              // scenario-specific monitor clause
	CrashProp, HangProp string
	ExpectLibAliveZero bool
}

type Quiet struct {
	Seq       int
	GatesOpen bool
}

func init() {
	if os.Getenv("VH_DUMP") != "" {
		dumpEvents = true // replay aid: the worker's state is written into the event log at every rest
	}
}

func NewH() *H {
	h := &H{jobByTag: map[int]*JobRec{}, gates: map[int]chan struct{}{}, Beh: map[int]int{}, curAdd: map[int]int{}, Marks: map[string]int{},
		vseen: map[string]bool{}, opened: map[int]bool{}, inCall: map[int]string{}, hist: 1469598103934665603, Shape: Yielding, CrashProp: "C03", HangProp: "C03"}
	return h
}

func tid() int {
	if !vrt.Active() {
		return -1
	}
	return vrt.Cur().ID
}

func (h *H) ev(k, op string, job int, res string) int {
	h.seq++
	t := tid()
	if !vrt.RaceMode || len(h.Events) < 4096 {
		h.Events = append(h.Events, Ev{Seq: h.seq, K: k, T: t, Op: op, Job: job, Res: res})
	}
	x := h.hist
	mixs := func(s string) {
		for i := 0; i < len(s); i++ {
			x ^= uint64(s[i])
			x *= 1099511628211
		}
		x ^= 0xff
		x *= 1099511628211
	}
	mixs(k)
	mixs(op)
	x ^= uint64(job + 7)
	x *= 1099511628211
	x ^= uint64(t + 3)
	x *= 1099511628211
	mixs(res)
	h.hist = x
	return h.seq
}

func (h *H) Mark(name string) int {
	s := h.ev("mark", name, -1, "")
	h.Marks[name] = s
	return s
}

// Quiesce waits until nothing but this thread can move and records the quiescence mark.
func (h *H) Quiesce(gatesOpen bool) {
	vrt.Quiesce()
	s := h.ev("mark", "quiet", -1, "")
	h.Quiets = append(h.Quiets, Quiet{Seq: s, GatesOpen: gatesOpen})
	if dumpEvents {
		for _, w := range h.Ws {
			if w.Wk != nil {
				w := w
				vrt.RawDo(func() {
					h.Notes = append(h.Notes, fmt.Sprintf("@%d state %s idle=%d proc=%d pend=%d conc=%d poolGoroutines=%d", s, w.Wk.Status(), w.Wk.NumIdleWorkers(), w.Wk.NumProcessing(), w.Wk.NumPending(), w.Wk.NumConcurrency(), vrt.LiveLib("initPoolNode")))
				})
			}
		}
		fmt.Fprintln(os.Stderr, h.Notes[len(h.Notes)-1])
	}
	h.sampleQuiet()
}

// viol records a violated clause. Digit runs in the detail are collapsed so that signatures are stable
// (the replay file carries the concrete numbers).
func (h *H) viol(prop, clause, detail string) {
	detail = collapseDigits(detail)
	k := prop + "|" + clause + "|" + detail
	if h.vseen[k] {
		return
	}
	h.vseen[k] = true
	h.V = append(h.V, vrt.Violation{Prop: prop, Clause: clause, Detail: detail})
}

func errStr(e error) string {
	if e == nil {
		return "nil"
	}
	switch {
	case errors.Is(e, varmq.ErrJobProcessing):
		return "ErrJobProcessing"
	case errors.Is(e, varmq.ErrJobAlreadyClosed):
		return "ErrJobAlreadyClosed"
	case errors.Is(e, varmq.ErrRunningWorker):
		return "ErrRunningWorker"
	case errors.Is(e, varmq.ErrNotRunningWorker):
		return "ErrNotRunningWorker"
	case errors.Is(e, varmq.ErrSameConcurrency):
		return "ErrSameConcurrency"
	case errors.Is(e, varmq.ErrAcknowledgeJob):
		return "ErrAcknowledgeJob"
	}
	return "err:" + e.Error()
}

// ---------------------------------------------------------------------------------------------
// workers and queues

type W struct {
	h        *H
	Idx      int
	Kind     WK
	Wk       varmq.Worker
	pb       varmq.IWorkerBinder[int]
	eb       varmq.IErrWorkerBinder[int]
	rb       varmq.IResultWorkerBinder[int, int]
	Qs       []*Q
	Limit0   int
	Inflight int
	Peak     int
	Limits   []LimitChange // limit history: value in effect from Seq on
	HasCtx   bool
	Expiry   bool
	autoN    int
	Notified int // "enqueued" notifications delivered to this consumer (distributed queues)
	// monitor state
	lastProc int
	Disp     []int // seqs at which the in-flight getter was seen to rise (one entry per unit)
	RefState string
	FinalStatus string
	FinalIdle int
}

type LimitChange struct {
	Seq int
	Val int
}

type Q struct {
	h    *H
	W    *W
	Idx  int
	Kind QK
	Base varmq.IExternalBaseQueue
	q    varmq.Queue[int]
	pq   varmq.PriorityQueue[int]
	eq   varmq.ErrQueue[int]
	epq  varmq.ErrPriorityQueue[int]
	rq   varmq.ResultQueue[int, int]
	rpq  varmq.ResultPriorityQueue[int, int]
	psq  varmq.PersistentQueue[int]
	ppq  varmq.PersistentPriorityQueue[int]
	dq   varmq.DistributedQueue[int]
	dpq  varmq.DistributedPriorityQueue[int]
	Ad   *Adapter
	Closed    bool
	Accepted  int
}

// NewWorker creates a worker of the given kind. opts are passed to the library constructor.
func (h *H) NewWorker(wk WK, limit int, opts ...any) *W {
	w := &W{h: h, Idx: len(h.Ws), Kind: wk, Limit0: limit, RefState: "Initiated"}
	h.Ws = append(h.Ws, w)
	all := append([]any{limit}, opts...)
	all = append(all, varmq.WithJobIdGenerator(func() string {
		if tag, ok := h.curAdd[tid()]; ok {
			return fmt.Sprintf("gen%d", tag)
		}
		// batch items: a fresh value per call
		w.autoN++
		return fmt.Sprintf("auto%d", w.autoN)
	}))
	switch wk {
	case Plain:
		w.pb = varmq.NewWorker(func(j varmq.Job[int]) { h.work(w, j) }, all...)
		w.Wk = w.pb
	case ErrW:
		w.eb = varmq.NewErrWorker(func(j varmq.Job[int]) error { _, e := h.work(w, j); return e }, all...)
		w.Wk = w.eb
	case ResW:
		w.rb = varmq.NewResultWorker(func(j varmq.Job[int]) (int, error) { return h.work(w, j) }, all...)
		w.Wk = w.rb
	}
	eff := limit
	if eff < 1 {
		eff = w.Wk.NumConcurrency()
	}
	w.Limits = []LimitChange{{Seq: 0, Val: eff}}
	return w
}

func valOf(tag int) int   { return tag*10 + 1 }
func errOf(tag int) error { return fmt.Errorf("err%d", tag) }

// work is the body of every worker function.
func (h *H) work(w *W, j varmq.Job[int]) (int, error) {
	tag := j.Data()
	jr := h.jobByTag[tag]
	if jr == nil {
		jr = &JobRec{Tag: tag, W: w, AddCall: 0, AddRet: 0}
		h.jobByTag[tag] = jr
		h.Jobs = append(h.Jobs, jr)
		h.Notes = append(h.Notes, fmt.Sprintf("unknown-job %d", tag))
	}
	if jr.St == nil {
		if s, ok := j.(interface{ Status() string }); ok {
			jr.St = s
		}
	}
	w.Inflight++
	if w.Inflight > w.Peak {
		w.Peak = w.Inflight
	}
	s := h.ev("start", "", tag, j.ID())
	jr.Starts = append(jr.Starts, s)
	jr.StartW = append(jr.StartW, w)
	jr.SeenID = append(jr.SeenID, j.ID())
	jr.SeenData = append(jr.SeenData, tag)
	h.onStart(w, jr, s)
	switch h.Shape {
	case Instant:
		vrt.Point(vrt.OpPlain, nil, nil)
	case Yielding:
		vrt.Yield()
	case Gated:
		g := h.gate(tag)
		<-g
	}
	if jr.St != nil && !vrt.RaceMode {
		if st := jr.St.Status(); st != "Processing" {
			h.viol("C16", "C16.processing", fmt.Sprintf("status %s at the end of the worker function", st))
		}
	}
	w.Inflight--
	e := h.ev("end", "", tag, "")
	jr.Ends = append(jr.Ends, e)
	switch h.Beh[tag] {
	case BErr:
		return 0, errOf(tag)
	case BPanic:
		// the panic value's kind depends on the job: a string, a value implementing error, a run-time error
		switch tag % 3 {
		case 1:
			panic(fmt.Errorf("boom%d", tag))
		case 2:
			var none []int
			_ = none[tag] // index out of range: a runtime.Error
		}
		panic(fmt.Sprintf("boom%d", tag))
	}
	return valOf(tag), nil
}

// panicText is what the error of a panicking job must mention.
func panicText(tag int) string {
	if tag%3 == 2 {
		return "index out of range"
	}
	return fmt.Sprintf("boom%d", tag)
}

func (h *H) gate(tag int) chan struct{} {
	g := h.gates[tag]
	if g == nil {
		g = make(chan struct{}, 1)
		h.gates[tag] = g
	}
	return g
}

// Open releases the gate of one job (at most once per job).
func (h *H) Open(tag int) {
	g := h.gate(tag)
	select {
	case g <- struct{}{}:
	default:
	}
}

// OpenAll releases every gate, also for jobs that start later.
func (h *H) OpenAll(tags ...int) {
	for _, t := range tags {
		h.Open(t)
	}
}

func (w *W) bindCommon(q *Q) *Q {
	q.h, q.W, q.Idx = w.h, w, len(w.Qs)
	w.Qs = append(w.Qs, q)
	return q
}

// Bind binds a queue of the given kind. For adapter kinds ad may be shared between workers (nil = new).
func (w *W) Bind(k QK, ad *Adapter) *Q {
	h := w.h
	q := &Q{Kind: k}
	if k.IsAdapter() && ad == nil {
		ad = h.NewAdapter(k.IsPrio())
		ad.AnyItems = k.IsCustom()
	}
	q.Ad = ad
	c := h.ctlCall(w, "Bind:"+k.String(), 0)
	switch w.Kind {
	case Plain:
		switch k {
		case Fifo:
			q.q = w.pb.BindQueue()
			q.Base = q.q
		case Prio:
			q.pq = w.pb.BindPriorityQueue()
			q.Base = q.pq
		case Pers:
			q.psq = w.pb.WithPersistentQueue(ad)
			q.Base = q.psq
		case PersPrio:
			q.ppq = w.pb.WithPersistentPriorityQueue(prioAdapter{ad})
			q.Base = q.ppq
		case Dist:
			ad.consumer = w
			q.dq = w.pb.WithDistributedQueue(ad)
			ad.consumer = nil
			q.Base = q.dq
		case DistPrio:
			ad.consumer = w
			q.dpq = w.pb.WithDistributedPriorityQueue(prioAdapter{ad})
			ad.consumer = nil
			q.Base = q.dpq
		case Cust:
			q.q = w.pb.WithQueue(ad)
			q.Base = q.q
		case CustPrio:
			q.pq = w.pb.WithPriorityQueue(prioAdapter{ad})
			q.Base = q.pq
		}
	case ErrW:
		switch k {
		case Fifo:
			q.eq = w.eb.BindQueue()
			q.Base = q.eq
		case Prio:
			q.epq = w.eb.BindPriorityQueue()
			q.Base = q.epq
		case Cust:
			q.eq = w.eb.WithQueue(ad)
			q.Base = q.eq
		case CustPrio:
			q.epq = w.eb.WithPriorityQueue(prioAdapter{ad})
			q.Base = q.epq
		default:
			panic("harness: err worker has no " + k.String())
		}
	case ResW:
		switch k {
		case Fifo:
			q.rq = w.rb.BindQueue()
			q.Base = q.rq
		case Prio:
			q.rpq = w.rb.BindPriorityQueue()
			q.Base = q.rpq
		case Cust:
			q.rq = w.rb.WithQueue(ad)
			q.Base = q.rq
		case CustPrio:
			q.rpq = w.rb.WithPriorityQueue(prioAdapter{ad})
			q.Base = q.rpq
		default:
			panic("harness: result worker has no " + k.String())
		}
	}
	h.ctlRet(c, nil)
	return w.bindCommon(q)
}

// AddOpt controls how a job is submitted.
type AddOpt struct {
	Prio   int
	WithID bool // WithJobId("id<tag>"); otherwise the worker's generator ("gen<tag>")
	EmptyID bool // WithJobId("") - falls back to the generator
}

func (h *H) newJob(q *Q, tag int, o AddOpt) *JobRec {
	if h.jobByTag[tag] != nil {
		panic(fmt.Sprintf("harness: duplicate tag %d", tag))
	}
	jr := &JobRec{Tag: tag, W: q.W, Q: q, Prio: o.Prio, Beh: h.Beh[tag]}
	h.jobByTag[tag] = jr
	h.Jobs = append(h.Jobs, jr)
	switch {
	case q.Kind == Dist || q.Kind == DistPrio:
		// a distributed producer has its own (default) configuration: no generator
		if o.WithID {
			jr.WantID = fmt.Sprintf("id%d", tag)
		} else {
			jr.WantID = "-" // must be empty
		}
	case o.WithID:
		jr.WantID = fmt.Sprintf("id%d", tag)
	default:
		jr.WantID = fmt.Sprintf("gen%d", tag)
	}
	return jr
}

// Add submits one job and records the call.
func (q *Q) Add(tag int, o AddOpt) *JobRec {
	h := q.h
	jr := h.newJob(q, tag, o)
	var cfg []varmq.JobConfigFunc
	if o.WithID {
		cfg = append(cfg, varmq.WithJobId(fmt.Sprintf("id%d", tag)))
	} else if o.EmptyID {
		cfg = append(cfg, varmq.WithJobId(""))
	}
	t := tid()
	h.curAdd[t] = tag
	h.inCall[t] = "Add"
	jr.AddCall = h.ev("call", "Add", tag, "")
	ok := false
	switch {
	case q.q != nil:
		var j varmq.EnqueuedJob
		j, ok = q.q.Add(tag, cfg...)
		jr.RejectHandle = !ok && j != nil
		if ok {
			jr.H = j
		}
	case q.pq != nil:
		var j varmq.EnqueuedJob
		j, ok = q.pq.Add(tag, o.Prio, cfg...)
		jr.RejectHandle = !ok && j != nil
		if ok {
			jr.H = j
		}
	case q.eq != nil:
		var j varmq.EnqueuedErrJob
		j, ok = q.eq.Add(tag, cfg...)
		jr.RejectHandle = !ok && j != nil
		if ok {
			jr.H, jr.ErrF = j, j.Err
		}
	case q.epq != nil:
		var j varmq.EnqueuedErrJob
		j, ok = q.epq.Add(tag, o.Prio, cfg...)
		jr.RejectHandle = !ok && j != nil
		if ok {
			jr.H, jr.ErrF = j, j.Err
		}
	case q.rq != nil:
		var j varmq.EnqueuedResultJob[int]
		j, ok = q.rq.Add(tag, cfg...)
		jr.RejectHandle = !ok && j != nil
		if ok {
			jr.H, jr.ResF = j, j.Result
		}
	case q.rpq != nil:
		var j varmq.EnqueuedResultJob[int]
		j, ok = q.rpq.Add(tag, o.Prio, cfg...)
		jr.RejectHandle = !ok && j != nil
		if ok {
			jr.H, jr.ResF = j, j.Result
		}
	case q.psq != nil:
		ok = q.psq.Add(tag, cfg...)
	case q.ppq != nil:
		ok = q.ppq.Add(tag, o.Prio, cfg...)
	case q.dq != nil:
		ok = q.dq.Add(tag, cfg...)
	case q.dpq != nil:
		ok = q.dpq.Add(tag, o.Prio, cfg...)
	}
	delete(h.curAdd, t)
	delete(h.inCall, t)
	jr.Accepted, jr.Rejected = ok, !ok
	if ok {
		q.Accepted++
	}
	if jr.H != nil && jr.St == nil {
		jr.St = jr.H
	}
	jr.AddRet = h.ev("ret", "Add", tag, fmt.Sprint(ok))
	return jr
}

// AddAll submits a batch. Items get IDs "id<tag>"; the items listed in NoID are submitted with an empty ID
// (the worker's generator must then supply one per item).
func (q *Q) AddAll(tags []int, prios []int) *BatchRec { return q.AddAllIDs(tags, prios, nil) }

func (q *Q) AddAllIDs(tags []int, prios []int, noID map[int]bool) *BatchRec {
	h := q.h
	b := &BatchRec{ID: len(h.Batches), Tags: tags, W: q.W, Q: q}
	h.Batches = append(h.Batches, b)
	items := make([]varmq.Item[int], len(tags))
	for i, t := range tags {
		p := 0
		if i < len(prios) {
			p = prios[i]
		}
		jr := h.newJob(q, t, AddOpt{Prio: p, WithID: true})
		jr.Batch = b
		items[i] = varmq.Item[int]{ID: fmt.Sprintf("id%d", t), Data: t, Priority: p}
		if noID[t] {
			items[i].ID = ""
			jr.WantID = "~auto"
		}
	}
	t := tid()
	h.inCall[t] = "AddAll"
	b.AddCall = h.ev("call", "AddAll", -1, fmt.Sprint(tags))
	for _, tg := range tags {
		h.jobByTag[tg].AddCall = b.AddCall
	}
	switch {
	case q.q != nil:
		g := q.q.AddAll(items)
		b.NumPend, b.WaitF = g.NumPending, g.Wait
	case q.pq != nil:
		g := q.pq.AddAll(items)
		b.NumPend, b.WaitF = g.NumPending, g.Wait
	case q.eq != nil:
		g := q.eq.AddAll(items)
		b.NumPend, b.WaitF, b.Errs, b.Drain = g.NumPending, g.Wait, g.Errs, g.Drain
	case q.epq != nil:
		g := q.epq.AddAll(items)
		b.NumPend, b.WaitF, b.Errs, b.Drain = g.NumPending, g.Wait, g.Errs, g.Drain
	case q.rq != nil:
		g := q.rq.AddAll(items)
		b.NumPend, b.WaitF, b.Results, b.Drain = g.NumPending, g.Wait, g.Results, g.Drain
	case q.rpq != nil:
		g := q.rpq.AddAll(items)
		b.NumPend, b.WaitF, b.Results, b.Drain = g.NumPending, g.Wait, g.Results, g.Drain
	default:
		panic("harness: AddAll on " + q.Kind.String())
	}
	delete(h.inCall, t)
	b.AddRet = h.ev("ret", "AddAll", -1, "")
	for _, tg := range tags {
		jr := h.jobByTag[tg]
		jr.AddRet = b.AddRet
		// AddAll does not report per item. An item is surely rejected only if the queue's Close had returned
		// before AddAll was called; otherwise it may have been accepted (batchSure() tells when it surely was).
		sureRejected := false
		for _, c := range h.QCloses {
			if c.W == q.W && c.Arg == q.Idx && c.Done && c.Ret < b.AddCall {
				sureRejected = true
			}
		}
		jr.Accepted, jr.Rejected = !sureRejected, sureRejected
	}
	return b
}

// ---------------------------------------------------------------------------------------------
// recorded API calls

func (h *H) ctlCall(w *W, op string, arg int) *Ctl {
	c := &Ctl{Op: op, Arg: arg, T: tid(), W: w}
	h.inCall[c.T] = op
	c.Call = h.ev("call", op, -1, fmt.Sprint(arg))
	h.Ctls = append(h.Ctls, c)
	return c
}

func (h *H) ctlRet(c *Ctl, err error) error {
	c.Err, c.Done = err, true
	delete(h.inCall, c.T)
	c.Ret = h.ev("ret", c.Op, -1, errStr(err))
	h.refAfter(c)
	return err
}

func (w *W) Pause() error        { c := w.h.ctlCall(w, "Pause", 0); return w.h.ctlRet(c, w.Wk.Pause()) }
func (w *W) PauseAndWait() error { c := w.h.ctlCall(w, "PauseAndWait", 0); return w.h.ctlRet(c, w.Wk.PauseAndWait()) }
func (w *W) Resume() error       { c := w.h.ctlCall(w, "Resume", 0); return w.h.ctlRet(c, w.Wk.Resume()) }
func (w *W) Stop() error         { c := w.h.ctlCall(w, "Stop", 0); return w.h.ctlRet(c, w.Wk.Stop()) }
func (w *W) WaitAndStop() error  { c := w.h.ctlCall(w, "WaitAndStop", 0); return w.h.ctlRet(c, w.Wk.WaitAndStop()) }
func (w *W) Restart() error      { c := w.h.ctlCall(w, "Restart", 0); return w.h.ctlRet(c, w.Wk.Restart()) }
func (w *W) WaitUntilFinished() {
	c := w.h.ctlCall(w, "WaitUntilFinished", 0)
	w.Wk.WaitUntilFinished()
	w.h.ctlRet(c, nil)
}
func (w *W) TunePool(n int) error {
	c := w.h.ctlCall(w, "TunePool", n)
	old := w.Limits[len(w.Limits)-1].Val
	// From the call on the new value may already be in effect (the library stores it before it returns), and
	// until the return the old one still counts: record max(old, new) for the window [call, ret] now. For
	// n < 1 the value (NumCPU) is only known afterwards; until then no finite bound is assumed.
	during := n
	if n < 1 {
		during = 1 << 20
	}
	idx := len(w.Limits)
	w.Limits = append(w.Limits, LimitChange{Seq: c.Call, Val: max(old, during)})
	err := w.Wk.TunePool(n)
	if err == nil && !vrt.RaceMode {
		// how many dispatched jobs are unfinished at the return: the getter's view, but never less than what
		// the harness itself sees executing (C02.tune, see oracle)
		p := 0
		vrt.RawDo(func() { p = w.Wk.NumProcessing() })
		c.OldUnfinished = max(p, w.Inflight)
	}
	if err == nil {
		eff := n
		if eff < 1 {
			eff = w.Wk.NumConcurrency()
		}
		w.Limits[idx].Val = max(old, eff)
		w.Limits = append(w.Limits, LimitChange{Seq: w.h.seq + 1, Val: eff})
	} else {
		// refused: nothing was stored, the old limit was in effect throughout
		w.Limits[idx].Val = old
	}
	return w.h.ctlRet(c, err)
}

func (q *Q) Purge() {
	c := q.h.ctlCall(q.W, "Purge", q.Idx)
	q.h.Purges = append(q.h.Purges, c)
	q.Base.Purge()
	q.h.ctlRet(c, nil)
}

func (q *Q) Close() error {
	c := q.h.ctlCall(q.W, "QClose", q.Idx)
	q.h.QCloses = append(q.h.QCloses, c)
	err := q.Base.Close()
	q.Closed = true
	return q.h.ctlRet(c, err)
}

func (h *H) CloseJob(jr *JobRec) error {
	cr := &CloseRec{}
	jr.Closes = append(jr.Closes, cr)
	t := tid()
	h.inCall[t] = "Close"
	cr.Call = h.ev("call", "Close", jr.Tag, "")
	cr.Err = jr.H.Close()
	cr.Done = true
	delete(h.inCall, t)
	cr.Ret = h.ev("ret", "Close", jr.Tag, errStr(cr.Err))
	return cr.Err
}

func (h *H) hcall(op string, job, batch int) *HandleCall {
	c := &HandleCall{Op: op, Job: job, Batch: batch, T: tid()}
	h.inCall[c.T] = op
	c.Call = h.ev("call", op, job, "")
	h.HCalls = append(h.HCalls, c)
	return c
}

func (h *H) hret(c *HandleCall, val int, err error) {
	c.Val, c.Err, c.Done = val, err, true
	delete(h.inCall, c.T)
	c.Ret = h.ev("ret", c.Op, c.Job, fmt.Sprintf("%d,%s", val, errStr(err)))
}

func (h *H) Wait(jr *JobRec) {
	c := h.hcall("Wait", jr.Tag, -1)
	jr.H.Wait()
	h.hret(c, 0, nil)
	if jr.waitRet == 0 {
		jr.waitRet = c.Ret
	}
}

func (h *H) Result(jr *JobRec) (int, error) {
	c := h.hcall("Result", jr.Tag, -1)
	v, e := jr.ResF()
	h.hret(c, v, e)
	return v, e
}

func (h *H) Err(jr *JobRec) error {
	c := h.hcall("Err", jr.Tag, -1)
	e := jr.ErrF()
	h.hret(c, 0, e)
	return e
}

func (h *H) BatchWait(b *BatchRec) {
	c := h.hcall("BatchWait", -1, b.ID)
	b.WaitF()
	h.hret(c, 0, nil)
	if b.WaitRet == 0 {
		b.WaitRet = c.Ret
	}
}

// ReadStream drains the batch stream until it is closed.
func (h *H) ReadStream(b *BatchRec) {
	c := h.hcall("ReadStream", -1, b.ID)
	if b.Results != nil {
		for r := range b.Results() {
			b.Got = append(b.Got, r)
			h.ev("mark", "result", -1, fmt.Sprintf("%s=%d,%s", r.JobId, r.Data, errStr(r.Err)))
		}
	} else if b.Errs != nil {
		for e := range b.Errs() {
			b.GotErrs = append(b.GotErrs, e)
			h.ev("mark", "berr", -1, errStr(e))
		}
	}
	h.hret(c, 0, nil)
	b.StreamEnd = c.Ret
}

// ---------------------------------------------------------------------------------------------
// recording adapter (persistent / distributed, plain / priority)

type adItem struct {
	raw  any // a stored entry that is not a []byte (foreign content)
	data []byte
	prio int
	seq  int
}

type AdCall struct {
	Seq  int
	Op   string // enq deq ack
	OK   bool
	Ack  string
	Data string
}

type Adapter struct {
	h        *H
	prio     bool
	items    []adItem
	unacked  map[string]adItem
	ackOrder []string
	nextAck  int
	nseq     int
	closed   bool
	subs     []func(string)
	subW     []*W
	consumer *W
	Log      []AdCall
	Faults   bool // ask the explorer for a fault at every call
	NFaults  int
	MaxFault int
	FaultsBy map[string]int // faults injected per operation kind (enq, deq, ack)
	AnyItems bool           // custom in-process queue: items are job objects, not bytes
	FaultOnly string        // "" = any operation may be refused, else only this one (enq, deq, ack)
	AckCount map[string]int
	AsyncNotify bool
}

func (h *H) NewAdapter(prio bool) *Adapter {
	a := &Adapter{h: h, prio: prio, unacked: map[string]adItem{}, AckCount: map[string]int{}}
	h.Adapters = append(h.Adapters, a)
	return a
}

func (a *Adapter) fault(op string) bool {
	if !a.Faults || a.NFaults >= a.MaxFault || vrt.Raw() || (a.FaultOnly != "" && a.FaultOnly != op) {
		return false
	}
	if vrt.Choose(2) == 1 {
		a.NFaults++
		if a.FaultsBy == nil {
			a.FaultsBy = map[string]int{}
		}
		a.FaultsBy[op]++
		return true
	}
	return false
}

func (a *Adapter) Len() int { return len(a.items) }
func (a *Adapter) Values() []any {
	vrt.Point(vrt.OpPlain, nil, nil)
	r := make([]any, 0, len(a.items))
	for _, it := range a.items {
		if it.raw != nil {
			r = append(r, it.raw)
		} else {
			r = append(r, it.data)
		}
	}
	return r
}
func (a *Adapter) Purge() {
	vrt.Point(vrt.OpPlain, nil, nil)
	a.items = nil
}
func (a *Adapter) Close() error { a.closed = true; return nil }
// Dequeue without an acknowledgement id is destructive: the item leaves the adapter for good.
func (a *Adapter) Dequeue() (any, bool) {
	vrt.Point(vrt.OpPlain, nil, nil)
	if len(a.items) == 0 || a.fault("deq") {
		a.Log = append(a.Log, AdCall{Seq: a.h.ev("mark", "ad.deq-plain", -1, "false"), Op: "deq-plain"})
		return nil, false
	}
	it := a.items[0]
	a.items = a.items[1:]
	a.Log = append(a.Log, AdCall{Seq: a.h.ev("mark", "ad.deq-plain", -1, "true"), Op: "deq-plain", OK: true, Data: string(it.data)})
	if it.raw != nil {
		return it.raw, true
	}
	return it.data, true
}
func (a *Adapter) Subscribe(f func(string)) {
	a.subs = append(a.subs, f)
	a.subW = append(a.subW, a.consumer)
}

func (a *Adapter) enqueue(item any, prio int) bool {
	vrt.Point(vrt.OpPlain, nil, nil)
	b, isB := item.([]byte)
	if a.AnyItems && !isB {
		isB = true
	}
	if a.closed || !isB || a.fault("enq") {
		a.Log = append(a.Log, AdCall{Seq: a.h.ev("mark", "ad.enq", -1, "false"), Op: "enq"})
		return false
	}
	a.nseq++
	it := adItem{data: b, prio: prio, seq: a.nseq}
	if a.AnyItems {
		it.raw = item
		if jb, ok := item.(interface{ Data() int }); ok {
			it.data = []byte(fmt.Sprintf(`{"data":%d}`, jb.Data()))
		}
	}
	if a.prio {
		i := sort.Search(len(a.items), func(i int) bool { return a.items[i].prio > prio })
		a.items = append(a.items, adItem{})
		copy(a.items[i+1:], a.items[i:])
		a.items[i] = it
	} else {
		a.items = append(a.items, it)
	}
	a.Log = append(a.Log, AdCall{Seq: a.h.ev("mark", "ad.enq", -1, "true"), Op: "enq", OK: true, Data: string(b)})
	if a.AsyncNotify {
		// the announcement travels separately from the store (pub/sub): it may arrive after later stores
		subs, subW := a.subs, a.subW
		go func() {
			for i, s := range subs {
				if w := subW[i]; w != nil {
					w.Notified++
				}
				s("enqueued")
			}
		}()
		return true
	}
	for i, s := range a.subs {
		if w := a.subW[i]; w != nil {
			w.Notified++
		}
		s("enqueued")
	}
	return true
}

func (a *Adapter) Enqueue(item any) bool { return a.enqueue(item, 0) }

func (a *Adapter) DequeueWithAckId() (any, bool, string) {
	vrt.Point(vrt.OpPlain, nil, nil)
	if len(a.items) == 0 || a.fault("deq") {
		a.Log = append(a.Log, AdCall{Seq: a.h.ev("mark", "ad.deq", -1, "false"), Op: "deq"})
		return nil, false, ""
	}
	it := a.items[0]
	a.items = a.items[1:]
	a.nextAck++
	id := fmt.Sprintf("ack-%d", a.nextAck)
	a.unacked[id] = it
	a.ackOrder = append(a.ackOrder, id)
	a.Log = append(a.Log, AdCall{Seq: a.h.ev("mark", "ad.deq", -1, id), Op: "deq", OK: true, Ack: id, Data: string(it.data)})
	if it.raw != nil {
		return it.raw, true, id
	}
	return it.data, true, id
}

// PushRaw places an arbitrary stored entry on the adapter without notification (content found at start-up).
func (a *Adapter) PushRaw(v any) {
	a.nseq++
	it := adItem{seq: a.nseq}
	if b, ok := v.([]byte); ok {
		it.data = b
	} else {
		it.raw = v
	}
	a.items = append(a.items, it)
}

func (a *Adapter) Acknowledge(id string) bool {
	vrt.Point(vrt.OpPlain, nil, nil)
	a.AckCount[id]++
	_, held := a.unacked[id]
	if !held || a.fault("ack") {
		a.Log = append(a.Log, AdCall{Seq: a.h.ev("mark", "ad.ack", -1, id+"=false"), Op: "ack", Ack: id})
		return false
	}
	delete(a.unacked, id)
	a.Log = append(a.Log, AdCall{Seq: a.h.ev("mark", "ad.ack", -1, id+"=true"), Op: "ack", OK: true, Ack: id})
	return true
}

type prioAdapter struct{ *Adapter }

func (p prioAdapter) Enqueue(item any, prio int) bool { return p.Adapter.enqueue(item, prio) }

// tagOfData extracts the job tag from a stored entry ({"id":..,"status":..,"data":N}).
func tagOfData(s string) int {
	i := strings.LastIndex(s, `"data":`)
	if i < 0 {
		return -1
	}
	n, neg, any := 0, false, false
	for _, c := range s[i+7:] {
		if c == '-' && !any {
			neg = true
			continue
		}
		if c < '0' || c > '9' {
			break
		}
		n = n*10 + int(c-'0')
		any = true
	}
	if !any {
		return -1
	}
	if neg {
		n = -n
	}
	return n
}

func collapseDigits(s string) string {
	b := make([]byte, 0, len(s))
	in := false
	for i := 0; i < len(s); i++ {
		c := s[i]
		if c >= '0' && c <= '9' {
			if !in {
				b = append(b, '#')
			}
			in = true
			continue
		}
		in = false
		b = append(b, c)
	}
	return string(b)
}
