package vharness

import (
	"fmt"
	"math"
	"sort"
	"strings"

	"github.com/goptics/varmq/internal/queues"
	"github.com/goptics/varmq/internal/vrt"
)

// Engine B: explicit enumeration of operation sequences on the queue data structures (C04) against
// reference models. The implementation is the transition function; a successor is computed by replaying
// the path on a fresh instance plus one more operation (live objects cannot be cloned).

type qOp struct {
	K    byte // e enqueue, d dequeue, p purge, c close
	Prio int
}

func (o qOp) String() string {
	switch o.K {
	case 'e':
		return fmt.Sprintf("Enq(%d)", o.Prio)
	case 'd':
		return "Deq"
	case 'p':
		return "Purge"
	}
	return "Close"
}

type modelItem struct {
	v, prio, idx int
}

type qModel struct {
	items  []modelItem
	closed bool
	n      int
	prio   bool
}

func (m *qModel) enq(v, prio int) bool {
	if m.closed {
		return false
	}
	it := modelItem{v, prio, m.n}
	m.n++
	if !m.prio {
		m.items = append(m.items, it)
		return true
	}
	i := sort.Search(len(m.items), func(i int) bool { return m.items[i].prio > prio })
	m.items = append(m.items, modelItem{})
	copy(m.items[i+1:], m.items[i:])
	m.items[i] = it
	return true
}

func (m *qModel) deq() (int, bool) {
	if len(m.items) == 0 {
		return 0, false
	}
	v := m.items[0].v
	m.items = m.items[1:]
	return v, true
}

type implQ interface {
	Len() int
	Dequeue() (any, bool)
	Values() []any
	Purge()
	Close() error
}

// runQueueSeq replays ops on a fresh queue and the model, comparing every observable after every step.
func runQueueSeq(prio bool, ops []qOp) string {
	var fq *queues.Queue[int]
	var pq *queues.PriorityQueue[int]
	var q implQ
	if prio {
		pq = queues.NewPriorityQueue[int]()
		q = pq
	} else {
		fq = queues.NewQueue[int]()
		q = fq
	}
	m := &qModel{prio: prio}
	next := 100
	for i, o := range ops {
		switch o.K {
		case 'e':
			var ok bool
			if prio {
				ok = pq.Enqueue(next, o.Prio)
			} else {
				ok = fq.Enqueue(next)
			}
			if want := m.enq(next, o.Prio); ok != want {
				return fmt.Sprintf("step %d %s: Enqueue returned %v, reference %v", i, o, ok, want)
			}
			next++
		case 'd':
			v, ok := q.Dequeue()
			wv, wok := m.deq()
			if ok != wok {
				return fmt.Sprintf("step %d Deq: ok=%v, reference %v", i, ok, wok)
			}
			if ok && v.(int) != wv {
				return fmt.Sprintf("step %d Deq: got item #%d, reference order gives #%d", i, v.(int)-100, wv-100)
			}
		case 'p':
			q.Purge()
			m.items = nil
		case 'c':
			q.Close()
			m.closed = true
		}
		if l := q.Len(); l != len(m.items) {
			return fmt.Sprintf("step %d %s: Len()=%d, reference %d", i, o, l, len(m.items))
		}
		vals := q.Values()
		if len(vals) != len(m.items) {
			return fmt.Sprintf("step %d %s: Values() has %d entries, reference %d", i, o, len(vals), len(m.items))
		}
		if !prio {
			for k, v := range vals {
				if v.(int) != m.items[k].v {
					return fmt.Sprintf("step %d %s: Values()[%d] is item #%d, reference #%d", i, o, k, v.(int)-100, m.items[k].v-100)
				}
			}
		} else {
			a := make([]int, len(vals))
			b := make([]int, len(vals))
			for k, v := range vals {
				a[k], b[k] = v.(int), m.items[k].v
			}
			sort.Ints(a)
			sort.Ints(b)
			for k := range a {
				if a[k] != b[k] {
					return fmt.Sprintf("step %d %s: Values() is not the reference multiset", i, o)
				}
			}
		}
	}
	return ""
}

func opsString(ops []qOp) string {
	var s []string
	for _, o := range ops {
		s = append(s, o.String())
	}
	return strings.Join(s, " ")
}

// enumQueue enumerates every sequence over the alphabet up to depth (depth-first; each node replays its path).
func enumQueue(r *SeqReport, prio bool, alphabet []qOp, depth int, caps [2]int, tag string) {
	states := map[string]struct{}{}
	var rec func(ops []qOp)
	rec = func(ops []qOp) {
		if len(ops) > 0 {
			r.Traces++
			r.Transitions += int64(len(ops))
			if msg := runQueueSeq(prio, ops); msg != "" {
				if len(r.V) < 20 {
					r.V = append(r.V, SeqViolation{"C04", "C04.queue-model", trimNums(msg), tag + ": " + opsString(ops)})
				}
				return // extensions of a failing sequence fail too
			}
			if len(r.Samples) < 3 && len(ops) == depth {
				r.Samples = append(r.Samples, tag+": "+opsString(ops))
			}
		}
		if len(ops) > r.MaxDepth {
			r.MaxDepth = len(ops)
		}
		// canonical abstract state (coverage metric only; no pruning): the multiset of ops kinds and the model contents
		m := &qModel{prio: prio}
		nx := 0
		for _, o := range ops {
			switch o.K {
			case 'e':
				m.enq(nx, o.Prio)
				nx++
			case 'd':
				m.deq()
			case 'p':
				m.items = nil
			case 'c':
				m.closed = true
			}
		}
		key := fmt.Sprint(m.closed, len(ops)%4)
		for _, it := range m.items {
			key += fmt.Sprintf(",%d/%d", it.prio, it.idx)
		}
		states[key] = struct{}{}
		if len(ops) == depth {
			return
		}
		for _, o := range alphabet {
			rec(append(append([]qOp{}, ops...), o))
		}
	}
	rec(nil)
	r.States += int64(len(states))
	r.Distinct += int64(len(states))
}

// trimNums keeps violation details stable across sequences (positions vary).
func trimNums(s string) string {
	if i := strings.Index(s, ": "); i > 0 && strings.HasPrefix(s, "step ") {
		return s[i+2:]
	}
	return s
}

// walkBoundaries drives the FIFO queue at its real capacities through every segment boundary.
func walkBoundaries(r *SeqReport, upto int) {
	q := queues.NewQueue[int]()
	nextIn, nextOut := 0, 0
	check := func(what string) bool {
		if l := q.Len(); l != nextIn-nextOut {
			r.V = append(r.V, SeqViolation{"C04", "C04.segment", "Len() disagrees with the reference at a segment boundary", what})
			return false
		}
		return true
	}
	deqN := func(n int, what string) bool {
		for i := 0; i < n; i++ {
			v, ok := q.Dequeue()
			r.Transitions++
			if !ok || v.(int) != nextOut {
				r.V = append(r.V, SeqViolation{"C04", "C04.segment", "FIFO order broken across a segment boundary", fmt.Sprintf("%s: dequeue #%d gave %v,%v", what, nextOut, v, ok)})
				return false
			}
			nextOut++
		}
		return check(what)
	}
	enqN := func(n int, what string) bool {
		for i := 0; i < n; i++ {
			if !q.Enqueue(nextIn) {
				r.V = append(r.V, SeqViolation{"C04", "C04.segment", "Enqueue refused on an open queue", what})
				return false
			}
			r.Transitions++
			nextIn++
		}
		return check(what)
	}
	// segment sizes: 1024, 1536, 2304, ... x1.5 up to 100K
	bounds := []int{}
	c, tot := 1024, 0
	for tot < upto {
		tot += c
		bounds = append(bounds, tot)
		c = min(c+c/2, 100*1024)
	}
	for _, b := range bounds {
		for _, d := range []int{-1, 0, 1} {
			what := fmt.Sprintf("fill to boundary %d%+d then drain", b, d)
			r.Traces++
			if !enqN(b+d-(nextIn-nextOut), what) {
				return
			}
			// drain all but one, refill a little: read and write segments diverge
			if !deqN((nextIn-nextOut)-1, what) || !enqN(3, what) || !deqN(nextIn-nextOut, what) {
				return
			}
			if _, ok := q.Dequeue(); ok {
				r.V = append(r.V, SeqViolation{"C04", "C04.segment", "Dequeue on an empty queue returned an item", what})
				return
			}
			// start the next round from a fresh alignment
			q = queues.NewQueue[int]()
			nextIn, nextOut = 0, 0
		}
	}
	// interleaved producer/consumer pattern across many boundaries on one instance
	q = queues.NewQueue[int]()
	nextIn, nextOut = 0, 0
	for nextIn < upto {
		if !enqN(7, "interleaved 7 in / 5 out") || !deqN(5, "interleaved 7 in / 5 out") {
			return
		}
	}
	r.Traces++
	deqN(nextIn-nextOut, "final drain of the interleaved walk")
	// purge and reuse
	q.Purge()
	nextIn, nextOut = 0, 0
	enqN(2000, "reuse after purge")
	deqN(2000, "reuse after purge")
	r.Traces++
	r.Samples = append(r.Samples, fmt.Sprintf("real capacities: fill/drain around %d boundaries up to %d items; 7-in/5-out walk over %d items; purge and reuse", len(bounds), upto, upto))
}

func init() {
	fifoAlpha := []qOp{{K: 'e'}, {K: 'd'}, {K: 'p'}, {K: 'c'}}
	prioAlpha := []qOp{{K: 'e', Prio: math.MinInt}, {K: 'e', Prio: -1}, {K: 'e', Prio: 0}, {K: 'e', Prio: 1}, {K: 'e', Prio: math.MaxInt}, {K: 'd'}, {K: 'p'}, {K: 'c'}}
	for _, tier := range []struct {
		name   string
		df, dp int
		props  []string
		walk   int
	}{{"quick", 8, 7, []string{"C04"}, 40_000}, {"thorough", 11, 8, []string{"C04"}, 700_000}} {
		tier := tier
		Register(&Scenario{
			Name: "seq-queue-fifo/" + tier.name, Props: tier.props, Seq: true, Only: tier.name,
			SeqRun: func(r *SeqReport) {
				crash := vrt.RunRaw(func() {
					for _, caps := range [][2]int{{2, 3}, {1, 1}, {3, 4}} {
						queues.VrtSetCaps(caps[0], caps[1])
						enumQueue(r, false, fifoAlpha, tier.df, caps, fmt.Sprintf("fifo caps=%v", caps))
					}
					queues.VrtSetCaps(1024, 100*1024)
					walkBoundaries(r, tier.walk)
				})
				if crash != "" {
					r.V = append(r.V, SeqViolation{"C04", "C04.crash", crash, "queue enumeration"})
				}
				r.Exhaustive = true
				r.Notes = append(r.Notes, fmt.Sprintf("all sequences over {Enq,Deq,Purge,Close} up to depth %d at segment capacities (2,3),(1,1),(3,4); Len and Values compared after every step", tier.df))
			},
		})
		Register(&Scenario{
			Name: "seq-queue-prio/" + tier.name, Props: tier.props, Seq: true, Only: tier.name,
			SeqRun: func(r *SeqReport) {
				crash := vrt.RunRaw(func() {
					enumQueue(r, true, prioAlpha, tier.dp, [2]int{}, "prio")
				})
				if crash != "" {
					r.V = append(r.V, SeqViolation{"C04", "C04.crash", crash, "queue enumeration"})
				}
				r.Exhaustive = true
				r.Notes = append(r.Notes, fmt.Sprintf("all sequences over {Enq(MinInt,-1,0,1,MaxInt),Deq,Purge,Close} up to depth %d vs a stable sorted list", tier.dp))
			},
		})
	}
}
