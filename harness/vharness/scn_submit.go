package vharness

import (
	"time"

	varmq "github.com/goptics/varmq"
	"github.com/goptics/varmq/internal/queues"
	"github.com/goptics/varmq/internal/vrt"
)

func init() {
	// submit: producers x dispatcher x pool; the basic exactly-once / limit / progress / order scenario.
	for _, kp := range allKinds() {
		kp := kp
		for _, c := range []int{1, 2} {
			c := c
			Register(&Scenario{
				Name:  name("submit/%s/c%d", kp, c),
				Props: []string{"C01", "C02", "C03", "C04", "C16", "C17"},
				Mode:  "NB", Quick: 2, Thorough: 3, Shards: 4,
				Body: func(h *H) {
					w := h.NewWorker(kp.W, c)
					q := w.Bind(kp.Q, nil)
					go func() { q.Add(2, AddOpt{Prio: 1}) }()
					q.Add(0, AddOpt{Prio: 2, WithID: true})
					q.Add(1, AddOpt{Prio: 1})
					h.End()
				},
			})
		}
	}
	// latejoin: an Add racing the completion of the only job in flight (the last wake-up must not be lost)
	for _, kp := range allKinds() {
		kp := kp
		Register(&Scenario{
			Name:  name("latejoin/%s", kp),
			Props: []string{"C03", "C01", "C16", "C17"},
			Mode:  "NB", Quick: 2, Thorough: 3, Shards: 2,
			Body: func(h *H) {
				w := h.NewWorker(kp.W, 1)
				q := w.Bind(kp.Q, nil)
				q.Add(0, AddOpt{})
				go func() { q.Add(1, AddOpt{}) }()
				h.End()
			},
		})
	}
	// prio-order: a paused, pre-loaded priority queue is resumed while a producer keeps adding (C04)
	for _, kp := range []kindPair{{Plain, Prio}, {ErrW, Prio}, {ResW, Prio}, {Plain, PersPrio}, {Plain, DistPrio}} {
		kp := kp
		Register(&Scenario{
			Name:  name("prio-order/%s", kp),
			Props: []string{"C04", "C01", "C09"},
			Mode:  "NB", Quick: 2, Thorough: 3, Shards: 8,
			Body: func(h *H) {
				w := h.NewWorker(kp.W, 1)
				q := w.Bind(kp.Q, nil)
				w.Pause()
				q.Add(0, AddOpt{Prio: 2})
				q.Add(1, AddOpt{Prio: 1})
				q.Add(2, AddOpt{Prio: 1})
				q.Add(3, AddOpt{Prio: -5})
				go func() { q.Add(4, AddOpt{Prio: 0}); q.Add(5, AddOpt{Prio: 1}) }()
				w.Resume()
				h.End()
			},
		})
	}
	// segment: FIFO segment capacities (2,3) so that the third and the sixth job cross a segment boundary (C01, C04)
	for _, kp := range []kindPair{{Plain, Fifo}, {ResW, Fifo}, {Plain, Pers}} {
		kp := kp
		Register(&Scenario{
			Name:  name("segment/%s", kp),
			Props: []string{"C01", "C04", "C17"},
			Mode:  "NB", Quick: 2, Thorough: 3, Shards: 8,
			Body: func(h *H) {
				if !queues.VrtSetCaps(2, 3) {
					h.Notes = append(h.Notes, "capacity variables not found: real capacities used")
				}
				w := h.NewWorker(kp.W, 1)
				q := w.Bind(kp.Q, nil)
				go func() { q.Add(4, AddOpt{}); q.Add(5, AddOpt{}) }()
				for i := 0; i < 4; i++ {
					q.Add(i, AddOpt{})
				}
				h.End()
			},
		})
	}
	// burst: more jobs than the first two real segments (1024 + 1536), canonical schedule only (thorough tier)
	Register(&Scenario{
		Name:  "burst/plain-fifo",
		Props: []string{"C01", "C04"},
		Mode:  "DB", Quick: 0, Thorough: 0, Shards: 1, MaxSteps: 2_000_000, Only: "thorough",
		Body: func(h *H) {
			h.NoMon = true
			h.Shape = Instant
			w := h.NewWorker(Plain, 2)
			q := w.Bind(Fifo, nil)
			w.Pause()
			for i := 0; i < 1024+1536+8; i++ {
				q.Add(i, AddOpt{})
			}
			w.Resume()
			h.End()
		},
	})
	// reaper with the pool cache allowed to drop nodes (sync.Pool may do so at any time)
	Register(&Scenario{
		Name:  "reaper-poolchoice",
		Props: []string{"C01", "C03", "C18"},
		Mode:  "DB", Quick: 2, Thorough: 3, Shards: 16, PoolChoice: true,
		Body: func(h *H) {
			w := h.NewWorker(Plain, 2, varmq.WithIdleWorkerExpiryDuration(time.Second))
			w.Expiry = true
			q := w.Bind(Fifo, nil)
			q.Add(0, AddOpt{})
			q.Add(1, AddOpt{})
			h.Quiesce(true)
			vrt.Arm(1)
			q.Add(2, AddOpt{})
			h.Quiesce(true)
			q.Add(3, AddOpt{})
			h.End()
		},
	})
}
