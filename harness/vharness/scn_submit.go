package vharness

func init() {
	// submit: producers x dispatcher x pool; the basic exactly-once / limit / progress / order scenario.
	for _, kp := range allKinds() {
		kp := kp
		for _, c := range []int{1, 2} {
			c := c
			Register(&Scenario{
				Name:  name("submit/%s/c%d", kp, c),
				Props: []string{"C01", "C02", "C03", "C04", "C16", "C17"},
				Mode:  "NB", Quick: 2, Thorough: 3, Shards: 4,
				Body: func(h *H) {
					w := h.NewWorker(kp.W, c)
					q := w.Bind(kp.Q, nil)
					go func() { q.Add(2, AddOpt{Prio: 1}) }()
					q.Add(0, AddOpt{Prio: 2, WithID: true})
					q.Add(1, AddOpt{Prio: 1})
					h.End()
				},
			})
		}
	}
	// latejoin: an Add racing the completion of the only job in flight (the last wake-up must not be lost)
	for _, kp := range allKinds() {
		kp := kp
		Register(&Scenario{
			Name:  name("latejoin/%s", kp),
			Props: []string{"C03", "C01", "C16", "C17"},
			Mode:  "NB", Quick: 2, Thorough: 3, Shards: 2,
			Body: func(h *H) {
				w := h.NewWorker(kp.W, 1)
				q := w.Bind(kp.Q, nil)
				q.Add(0, AddOpt{})
				go func() { q.Add(1, AddOpt{}) }()
				h.End()
			},
		})
	}
}
