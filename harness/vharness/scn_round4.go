package vharness

import (
	"fmt"
	"time"

	varmq "github.com/goptics/varmq"
	"sort"
	"strings"

	"github.com/goptics/varmq/internal/vrt"
)

// Scenario families added after the fourth round of seeded changes (DESIGN 8.4): barriers on a worker that is
// already paused, batches whose application waits before it reads, submissions to a queue that is already closed,
// and a further queue bound to a paused worker with jobs pending.

func init() {
	// ---- pause-pausewait: PauseAndWait / Stop / WaitAndStop on a worker paused by a plain Pause with a job in flight;
	// pausewait2: two concurrent PauseAndWait callers (C06: they return only when no worker function is executing)
	for _, kp := range []kindPair{{Plain, Fifo}, {ResW, Prio}} {
		for _, op := range []string{"PauseAndWait", "Stop", "WaitAndStop"} {
			kp, op := kp, op
			Register(&Scenario{
				Name:  name("pause-then/%s/%s", op, kp),
				Props: []string{"C06", "C09"},
				Mode:  "NB", Quick: 2, Thorough: 3, Shards: 4,
				Body: func(h *H) {
					h.HangProp = "C06"
					h.Shape = Gated
					w := h.NewWorker(kp.W, 2)
					q := w.Bind(kp.Q, nil)
					q.Add(0, AddOpt{})
					h.Quiesce(false)
					w.Pause()
					q.Add(1, AddOpt{Prio: 1})
					go func() {
						switch op {
						case "PauseAndWait":
							w.PauseAndWait()
						case "Stop":
							w.Stop()
						default:
							w.WaitAndStop()
						}
					}()
					h.Quiesce(false)
					h.Open(0)
					h.Quiesce(true)
					h.NoRest = op != "PauseAndWait"
					h.End()
				},
			})
		}
		kp := kp
		Register(&Scenario{
			Name:  name("pausewait2/%s", kp),
			Props: []string{"C06"},
			Mode:  "NB", Quick: 2, Thorough: 3, Shards: 4,
			Body: func(h *H) {
				h.HangProp = "C06"
				h.Shape = Gated
				w := h.NewWorker(kp.W, 2)
				q := w.Bind(kp.Q, nil)
				q.Add(0, AddOpt{})
				q.Add(1, AddOpt{Prio: 1})
				h.Quiesce(false)
				go func() { w.PauseAndWait() }()
				go func() { w.PauseAndWait() }()
				h.Quiesce(false)
				h.Open(0)
				h.Quiesce(false)
				h.Open(1)
				h.Quiesce(true)
				for _, ww := range h.Ws {
					ww.RefState = "Paused"
				}
				h.NoRest = true
				h.End()
			},
		})
	}

	// ---- batch-waitfirst: the application calls Wait on the batch before it reads the stream (or never reads it).
	// The stream has room for every item, so no worker may block on it: Wait returns, the stream then holds one
	// entry per item (result worker) / per failed item (error worker) and is closed (C08, C05, C03)
	for _, kp := range []kindPair{{ErrW, Fifo}, {ErrW, Prio}, {ResW, Fifo}, {ResW, Prio}} {
		for _, n := range []int{2, 3} {
			for _, c := range []int{1, 2} {
				if n == 2 && c == 2 {
					continue
				}
				kp, n, c := kp, n, c
				Register(&Scenario{
					Name:  name("batch-waitfirst/%s/n%dc%d", kp, n, c),
					Props: []string{"C08", "C05", "C03"},
					Mode:  "NB", Quick: 1, Thorough: 2, Shards: 2,
					Body: func(h *H) {
						h.CrashProp = "C08"
						h.HangProp = "C08"
						// every item fails: two errors, a panic
						for i := 0; i < n; i++ {
							h.Beh[i] = BErr
						}
						if n == 3 {
							h.Beh[1] = BPanic
						}
						w := h.NewWorker(kp.W, c)
						q := w.Bind(kp.Q, nil)
						tags := make([]int, n)
						for i := range tags {
							tags[i] = i
						}
						b := q.AddAll(tags, nil)
						h.BatchWait(b)
						if np := b.NumPend(); np != 0 {
							h.viol("C08", "C08.pending-after-wait", fmt.Sprintf("batch NumPending()=%d after Wait returned", np))
						}
						h.ReadStream(b)
						h.End()
					},
				})
			}
		}
	}

	// ---- batch-closed: AddAll on a queue whose Close has returned: every item is rejected with no side effect -
	// nothing runs, nothing is pending (batch, queue, worker), Wait returns at once, the stream is closed and empty,
	// Submitted does not move (C10, C08, C05, C17)
	for _, kp := range memKinds() {
		for _, n := range []int{1, 2, 3} {
			kp, n := kp, n
			Register(&Scenario{
				Name:  name("batch-closed/%s/n%d", kp, n),
				Props: []string{"C10", "C08", "C05", "C17"},
				Mode:  "NB", Quick: 1, Thorough: 2, Shards: 1,
				Body: func(h *H) {
					h.CrashProp = "C10"
					h.HangProp = "C08"
					w := h.NewWorker(kp.W, 2)
					q := w.Bind(kp.Q, nil)
					q.Add(10, AddOpt{}) // a job accepted before the Close still runs
					q.Close()
					tags := make([]int, n)
					for i := range tags {
						tags[i] = i
					}
					b := q.AddAll(tags, nil)
					if np := b.NumPend(); np != 0 {
						h.viol("C10", "C10.reject-pending", fmt.Sprintf("a batch submitted to a closed queue reports NumPending()=%d: rejected items are not pending", np))
					}
					if jr := q.Add(20, AddOpt{}); jr.Accepted || jr.RejectHandle {
						h.viol("C10", "C10.reject-accepted", "Add on a closed queue reported success or returned a handle")
					}
					h.BatchWait(b)
					if b.Results != nil || b.Errs != nil {
						h.ReadStream(b)
					}
					h.Quiesce(true)
					if s := int(w.Wk.Metrics().Submitted()); s != 1 {
						h.viol("C10", "C10.reject-counted", fmt.Sprintf("Submitted()=%d with one accepted job and %d rejected ones", s, n+1))
					}
					h.End()
				},
			})
		}
	}

	// ---- rebind-paused-pending: a further queue bound to a paused worker with jobs pending: nothing starts until
	// Resume, then everything runs (C09, C14, C01)
	for _, kp := range []kindPair{{Plain, Fifo}, {ErrW, Prio}, {ResW, Fifo}} {
		for _, hard := range []bool{false, true} {
			kp, hard := kp, hard
			nm := name("rebind-paused-pending/%s", kp)
			if hard {
				nm += "/pauseandwait"
			}
			Register(&Scenario{
				Name:  nm,
				Props: []string{"C09", "C14", "C01"},
				Mode:  "NB", Quick: 2, Thorough: 3, Shards: 4,
				Body: func(h *H) {
					w := h.NewWorker(kp.W, 2)
					q := w.Bind(kp.Q, nil)
					if hard {
						w.PauseAndWait()
					} else {
						w.Pause()
					}
					q.Add(0, AddOpt{})
					q.Add(1, AddOpt{Prio: 1})
					k2 := Prio
					if kp.Q == Prio {
						k2 = Fifo
					}
					q2 := w.Bind(k2, nil)
					q2.Add(2, AddOpt{})
					h.Quiesce(true)
					if st := w.Wk.Status(); st != "Paused" {
						h.viol("C14", "C14.bind-changes-state", "binding another queue to a paused worker left it "+st)
					}
					for _, jr := range h.Jobs {
						if len(jr.Starts) > 0 {
							h.viol("C09", "C09.start-while-paused", "a job started on a paused worker with nothing in flight at the pause (a further queue had been bound)")
							break
						}
					}
					w.Resume()
					h.End()
				},
			})
		}
	}
	_ = vrt.Quiesce
}

// Scenario families added after the fifth round of seeded changes.
func init() {
	// ---- restart-add-idle: a Restart (directly, or after Stop) of an idle worker racing a submission: the job must run
	// with no further call (C01, C03, C14)
	for _, viaStop := range []bool{false, true} {
		for _, kp := range []kindPair{{Plain, Fifo}, {ResW, Prio}} {
			kp, viaStop := kp, viaStop
			nm := name("restart-add-idle/%s", kp)
			if viaStop {
				nm += "/stopped"
			}
			Register(&Scenario{
				Name:  nm,
				Props: []string{"C01", "C03", "C14", "C09"},
				Mode:  "NB", Quick: 2, Thorough: 3, Shards: 8,
				Body: func(h *H) {
					w := h.NewWorker(kp.W, 2)
					q := w.Bind(kp.Q, nil)
					q2 := w.Bind(Fifo, nil) // (a second queue widens the window in which start() samples the lengths)
					_ = q2
					if viaStop {
						w.Stop()
					}
					go func() { w.Restart() }()
					go func() { q.Add(0, AddOpt{}) }()
					h.End()
				},
			})
		}
	}

	// ---- restart-load-adapter: a Restart while the dispatcher of the run that ends is in the middle of its round, on an
	// acknowledging adapter with two items pending and concurrency 2: the stale dispatcher and the new one may both
	// dispatch; every delivery is still acknowledged once, afterwards, with its own id (C11, C01, C02)
	for _, qk := range []QK{Pers, DistPrio} {
		qk := qk
		Register(&Scenario{
			Name:  name("restart-load-adapter/%s", qk),
			Props: []string{"C11", "C01", "C02", "C13"},
			Mode:  "NB", Quick: 3, Thorough: 4, Shards: 16,
			Body: func(h *H) {
				w := h.NewWorker(Plain, 2)
				q := w.Bind(qk, nil)
				q.Add(0, AddOpt{WithID: true})
				q.Add(1, AddOpt{WithID: true, Prio: 1})
				go func() { w.Restart() }()
				h.Quiesce(true)
				h.crashCuts(q.Ad)
				if len(q.Ad.unacked) != 0 || len(q.Ad.items) != 0 {
					h.viol("C11", "C11.unacked-at-rest", fmt.Sprintf("at rest the adapter still holds %d pending and %d unacknowledged items", len(q.Ad.items), len(q.Ad.unacked)))
				}
				h.End()
			},
		})
	}

	// ---- custom-batch-purge: a batch on a user-supplied queue that has no Drain (Purge = Values snapshot, then the
	// queue's Purge, then Close of the snapshot): an item of the snapshot may be dispatched before the close loop
	// reaches it, its Close is then refused - and the batch's Wait still returns only when it has finished (C05, C08, C16)
	for _, kp := range []kindPair{{Plain, Cust}, {ErrW, Cust}, {ResW, CustPrio}} {
		kp := kp
		Register(&Scenario{
			Name:  name("custom-batch-purge/%s", kp),
			Props: []string{"C05", "C08", "C16", "C10"},
			Mode:  "NB", Quick: 2, Thorough: 3, Shards: 8,
			Body: func(h *H) {
				h.CrashProp = "C08"
				h.HangProp = "C08"
				w := h.NewWorker(kp.W, 1)
				q := w.Bind(kp.Q, nil)
				b := q.AddAll([]int{0, 1, 2}, nil)
				go func() { q.Purge() }()
				if b.Results != nil || b.Errs != nil {
					go func() { h.ReadStream(b) }()
				}
				go func() { h.BatchWait(b) }()
				h.NoRest = true
				h.End()
			},
		})
	}

	// ---- rr-pause: RoundRobin over two queues with a Pause / Resume landing anywhere in the dispatcher's round:
	// with concurrency 1 and everything pending from the start the jobs still run a1 b1 a2 b2 (C15, C09)
	for _, op := range []string{"Pause", "PauseAndWait", "Restart"} {
		op := op
		Register(&Scenario{
			Name:  name("rr-pause/%s", op),
			Props: []string{"C15", "C09", "C01"},
			Mode:  "NB", Quick: 2, Thorough: 3, Shards: 8,
			Body: func(h *H) {
				w := h.NewWorker(Plain, 1)
				qa := w.Bind(Fifo, nil)
				qb := w.Bind(Prio, nil)
				w.PauseAndWait()
				qa.Add(0, AddOpt{})
				qb.Add(1, AddOpt{})
				qa.Add(2, AddOpt{})
				qb.Add(3, AddOpt{})
				w.Resume()
				go func() {
					switch op {
					case "Pause":
						w.Pause()
					case "PauseAndWait":
						w.PauseAndWait()
					default:
						w.Restart()
					}
				}()
				h.Quiesce(true)
				if w.Wk.IsPaused() {
					w.Resume()
				}
				h.End()
				type st struct{ tag, at int }
				var got []st
				for _, jr := range h.Jobs {
					if len(jr.Starts) == 1 {
						got = append(got, st{jr.Tag, jr.Starts[0]})
					}
				}
				sort.Slice(got, func(i, j int) bool { return got[i].at < got[j].at })
				if len(got) == 4 {
					for i, g := range got {
						if g.tag != i {
							h.viol("C15", "C15.roundrobin-order", "RoundRobin over two queues with everything pending from the start did not run the jobs a b a b (a pause or restart landed in the dispatcher's round)")
							break
						}
					}
				}
			},
		})
	}

	// ---- reaper-reuse: the pool has grown to two idle workers and they have expired; a tick and a burst of three gated
	// jobs (concurrency 3) arrive together, so that the dispatcher pops idle workers while the reaper walks its
	// snapshot and then needs one more from the node cache. Everything runs once, and Stop leaves nothing behind (C18, C01)
	Register(&Scenario{
		Name:  "reaper-reuse",
		Props: []string{"C18", "C01", "C03", "C02"},
		Mode:  "NB", Quick: 2, Thorough: 3, Shards: 16,
		Body: func(h *H) {
			h.Shape = Gated
			h.CrashProp = "C18"
			w := h.NewWorker(Plain, 3, varmq.WithIdleWorkerExpiryDuration(time.Second))
			w.Expiry = true
			q := w.Bind(Fifo, nil)
			h.OpenAll(0, 1)
			q.Add(0, AddOpt{})
			q.Add(1, AddOpt{})
			h.Quiesce(true)
			vrt.Arm(1)
			go func() { q.Add(2, AddOpt{}); q.Add(3, AddOpt{}); q.Add(4, AddOpt{}) }()
			h.Quiesce(false)
			h.OpenAll(2, 3, 4)
			h.Quiesce(true)
			go func() { w.Stop() }()
			h.Quiesce(true)
			h.checkStoppedLeak(w)
			w.Restart()
			h.End()
		},
	})

	// ---- errs-paused: a job that fails or panics after a lifecycle call switched the status is still offered on Errs()
	// (C07: "a panic ... is offered on the error channel"); the buffer is free and nothing else fails
	for _, kp := range []kindPair{{Plain, Fifo}, {ErrW, Fifo}, {ResW, Prio}} {
		for _, op := range []string{"Pause", "PauseAndWait", "Stop"} {
			kp, op := kp, op
			Register(&Scenario{
				Name:  name("errs-paused/%s/%s", op, kp),
				Props: []string{"C07", "C06"},
				Mode:  "NB", Quick: 1, Thorough: 2, Shards: 2,
				Body: func(h *H) {
					h.Shape = Gated
					h.CrashProp = "C07"
					h.Beh[0] = BPanic
					if kp.W != Plain {
						h.Beh[0] = BErr
					}
					w := h.NewWorker(kp.W, 1)
					q := w.Bind(kp.Q, nil)
					q.Add(0, AddOpt{})
					h.Quiesce(false)
					errs := w.Wk.Errs() // (Stop replaces the channel: the offer goes to the one of this run)
					switch op {
					case "Pause":
						w.Pause()
					case "PauseAndWait":
						go func() { w.PauseAndWait() }()
					default:
						go func() { w.Stop() }()
					}
					h.Quiesce(false)
					h.Open(0)
					h.Quiesce(true)
					select {
					case e, ok := <-errs:
						want := "err0"
						if kp.W == Plain {
							want = panicText(0)
						}
						if !ok || e == nil || !strings.Contains(e.Error(), want) {
							h.viol("C07", "C07.errs", "the error channel carries "+errStr(e)+" instead of the error of the job that failed after the worker left the running state")
						}
					default:
						h.viol("C07", "C07.errs", "a job that failed after "+op+" had switched the worker's status was not offered on the error channel")
					}
					h.NoRest = true
					if op != "Stop" {
						w.Resume()
					}
					h.End()
				},
			})
		}
	}

	// ---- batch-purge-race: Purge racing the AddAll itself (an item between its Enqueue and its status change):
	// the batch still completes, every item ran once or was cancelled (C08, C10, C05)
	for _, kp := range memKinds() {
		kp := kp
		Register(&Scenario{
			Name:  name("batch-purge-race/%s", kp),
			Props: []string{"C08", "C10", "C05", "C16"},
			Mode:  "NB", Quick: 2, Thorough: 3, Shards: 8,
			Body: func(h *H) {
				h.CrashProp = "C08"
				h.HangProp = "C08"
				w := h.NewWorker(kp.W, 1)
				q := w.Bind(kp.Q, nil)
				w.Pause()
				go func() { q.Purge() }()
				b := q.AddAll([]int{0, 1}, nil)
				if b.Results != nil || b.Errs != nil {
					go func() { h.ReadStream(b) }()
				}
				go func() { h.BatchWait(b) }()
				h.Quiesce(true)
				w.Resume()
				h.End()
			},
		})
	}
}
