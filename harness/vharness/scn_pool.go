package vharness

import (
	"context"
	"sort"
	"strings"
	"time"

	varmq "github.com/goptics/varmq"
	"github.com/goptics/varmq/internal/vrt"
)

// C18: goroutine accounting over Stop/Restart cycles, with and without a context and idle expiry.

// liveNames lists the distinct spawn sites of the library goroutines that are still alive.
func liveNames() string {
	set := map[string]bool{}
	vrt.ThreadsSnapshot(func(t *vrt.Thread) {
		if t.Lib && !t.Env && !t.Done() {
			set[t.Name] = true
		}
	})
	var names []string
	for n := range set {
		names = append(names, n)
	}
	sort.Strings(names)
	return " " + strings.Join(names, " ")
}

func init() {
	for _, cfg := range []lifeCfg{{}, {ctx: true}, {expiry: true}, {ctx: true, expiry: true}} {
		cfg := cfg
		Register(&Scenario{
			Name:  "cycles/" + cfg.String(),
			Props: []string{"C18", "C14", "C01"},
			Mode:  "NB", Quick: 1, Thorough: 2, Shards: 8,
			Body: func(h *H) {
				var opts []any
				if cfg.ctx {
					opts = append(opts, varmq.WithContext(context.Background()))
				}
				if cfg.expiry {
					opts = append(opts, varmq.WithIdleWorkerExpiryDuration(time.Second))
				}
				w := h.NewWorker(Plain, 2, opts...)
				q := w.Bind(Fifo, nil)
				tag := 0
				for cycle := 0; cycle < 3; cycle++ {
					q.Add(tag, AddOpt{})
					q.Add(tag+1, AddOpt{})
					tag += 2
					h.Quiesce(true)
					if cycle > 0 {
						// while running: dispatcher + pool goroutines (+ reaper, + context listener), no relics of earlier runs
						lim := 1 + 2
						if cfg.ctx {
							lim++
						}
						if cfg.expiry {
							lim++
						}
						if n := vrt.LiveLib(""); n > lim {
							h.viol("C18", "C18.cycle-growth", "more library goroutines are alive in a later run than belong to it:"+liveNames())
						}
					}
					w.Stop()
					h.Quiesce(true)
					if n := vrt.LiveLib(""); n > 0 {
						h.viol("C18", "C18.leak-after-stop", "goroutines still alive after Stop returned:"+liveNames())
					}
					if st := w.Wk.Status(); st != "Stopped" {
						h.viol("C14", "C14.status-after-stop", "Status() is "+st+" after Stop returned")
					}
					w.Restart()
					h.Quiesce(true)
					if st := w.Wk.Status(); st != "Running" {
						h.viol("C14", "C14.restart", "Status() is "+st+" after Restart returned and the system came to rest")
						return
					}
				}
				q.Add(tag, AddOpt{})
				h.End()
			},
		})
	}
	// Restart of a running (and of a paused) worker with a context: the previous run's goroutines must end too
	Register(&Scenario{
		Name:  "restart-running/ctx",
		Props: []string{"C18", "C14", "C01"},
		Mode:  "NB", Quick: 1, Thorough: 2, Shards: 8,
		Body: func(h *H) {
			w := h.NewWorker(Plain, 2, varmq.WithContext(context.Background()))
			q := w.Bind(Fifo, nil)
			q.Add(0, AddOpt{})
			h.Quiesce(true)
			w.Restart()
			q.Add(1, AddOpt{})
			h.Quiesce(true)
			w.Pause()
			w.Restart()
			q.Add(2, AddOpt{})
			h.Quiesce(true)
			if n := vrt.LiveLib(""); n > 1+2+1 {
				h.viol("C18", "C18.cycle-growth", "more library goroutines are alive in a later run than belong to it:"+liveNames())
			}
			w.Stop()
			h.Quiesce(true)
			if n := vrt.LiveLib(""); n > 0 {
				h.viol("C18", "C18.leak-after-stop", "goroutines still alive after Stop returned:"+liveNames())
			}
			h.End()
		},
	})
	// the context is cancelled while a job is executing; the caller resumes the (then paused) worker before the job
	// ends: the cancellation must still stop the worker, and it must never report Running while unable to process
	Register(&Scenario{
		Name:  "ctx-cancel-resume",
		Props: []string{"C14", "C18"},
		Mode:  "NB", Quick: 2, Thorough: 3, Shards: 8,
		Body: func(h *H) {
			h.Shape = Gated
			ctx, cancel := context.WithCancel(context.Background())
			w := h.NewWorker(Plain, 1, varmq.WithContext(ctx))
			q := w.Bind(Fifo, nil)
			q.Add(0, AddOpt{})
			h.Quiesce(false)
			c := h.ctlCall(w, "Cancel", 0)
			cancel()
			h.ctlRet(c, nil)
			w.RefState = "?"
			h.Quiesce(false)
			go func() { w.Resume() }()
			go func() { h.Open(0) }()
			h.Quiesce(true)
			st := w.Wk.Status()
			p := q.Add(1, AddOpt{})
			h.Open(1)
			h.Quiesce(true)
			if st == "Running" && len(p.Starts) == 0 {
				h.viol("C14", "C14.probe", "the worker reports Running after its context was cancelled but does not process a submitted job")
			}
			if st != "Stopped" && st != "Running" {
				h.viol("C14", "C14.cancel", "cancelling the configured context left the worker "+st)
			}
			if st == "Stopped" {
				if n := vrt.LiveLib(""); n > 0 {
					h.viol("C18", "C18.leak-after-stop", "goroutines still alive after the context was cancelled and the worker stopped:"+liveNames())
				}
			}
			h.NoRest = true
		},
	})
	// cancelling the configured context stops the worker and leaves no goroutine behind
	Register(&Scenario{
		Name:  "ctx-cancel",
		Props: []string{"C14", "C18", "C06"},
		Mode:  "NB", Quick: 2, Thorough: 3, Shards: 8,
		Body: func(h *H) {
			ctx, cancel := context.WithCancel(context.Background())
			w := h.NewWorker(Plain, 1, varmq.WithContext(ctx))
			q := w.Bind(Fifo, nil)
			q.Add(0, AddOpt{})
			go func() { c := h.ctlCall(w, "Cancel", 0); cancel(); h.ctlRet(c, nil); w.RefState = "?" }()
			q.Add(1, AddOpt{})
			h.Quiesce(true)
			if st := w.Wk.Status(); st != "Stopped" {
				h.viol("C14", "C14.cancel", "cancelling the configured context left the worker "+st)
			}
			if n := vrt.LiveLib(""); n > 0 {
				h.viol("C18", "C18.leak-after-stop", "goroutines still alive after the context was cancelled and the worker stopped:"+liveNames())
			}
			for _, ww := range h.Ws {
				ww.RefState = "Stopped"
			}
			h.End()
		},
	})
}
