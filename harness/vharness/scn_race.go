package vharness

import (
	"context"
	"time"

	varmq "github.com/goptics/varmq"
	"github.com/goptics/varmq/internal/vrt"
)

// C19: every unordered pair of public API calls against a set of base states, explored in race mode.
// The oracle is the race detector (see cmd/vexplore/race_on.go); the bodies only have to make the two
// calls overlap in every way the bound allows.

type raceEnv struct {
	h     *H
	w     *W
	q     *Q
	busy  *JobRec // a job executing (gated) when the pair starts, nil if none
	pend  *JobRec // a job pending or executing
	batch *BatchRec
	next  int
}

type raceOp struct {
	name string
	f    func(e *raceEnv)
}

func raceOps() []raceOp {
	return []raceOp{
		{"Add", func(e *raceEnv) { e.next++; e.q.Add(100+e.next, AddOpt{}) }},
		{"AddAll", func(e *raceEnv) {
			e.next += 2
			b := e.q.AddAll([]int{200 + e.next, 201 + e.next}, nil)
			if b.Results != nil {
				e.h.ReadStream(b)
			} else {
				e.h.BatchWait(b)
			}
		}},
		{"WaitResult", func(e *raceEnv) {
			if e.pend != nil {
				if e.pend.ResF != nil {
					e.h.Result(e.pend)
				} else {
					e.h.Wait(e.pend)
				}
			}
		}},
		{"Status", func(e *raceEnv) {
			if e.pend != nil {
				_ = e.pend.H.Status()
				_ = e.pend.H.IsClosed()
				_ = e.pend.H.ID()
			}
		}},
		{"JobClose", func(e *raceEnv) {
			if e.pend != nil {
				e.h.CloseJob(e.pend)
			}
		}},
		{"Purge", func(e *raceEnv) { e.q.Purge() }},
		{"QClose", func(e *raceEnv) { e.q.Close() }},
		{"Counts", func(e *raceEnv) {
			_ = e.q.Base.NumPending()
			_ = e.w.Wk.NumPending()
			_ = e.w.Wk.NumProcessing()
			_ = e.w.Wk.NumIdleWorkers()
			_ = e.w.Wk.NumConcurrency()
			m := e.w.Wk.Metrics()
			_ = m.Submitted() + m.Completed() + m.Successful() + m.Failed()
			if e.batch != nil && e.batch.NumPend != nil {
				_ = e.batch.NumPend()
			}
		}},
		{"StatusCtx", func(e *raceEnv) {
			_ = e.w.Wk.Context()
			_ = e.w.Wk.Status()
			_ = e.w.Wk.IsRunning()
			_ = e.w.Wk.Errs()
		}},
		{"PauseResume", func(e *raceEnv) { e.w.Pause(); e.w.Resume() }},
		{"TunePool", func(e *raceEnv) { e.w.TunePool(3); e.w.TunePool(1) }},
		{"Stop", func(e *raceEnv) { e.w.Stop() }},
		{"Restart", func(e *raceEnv) { e.w.Restart() }},
		{"WaitUntilFinished", func(e *raceEnv) { e.w.WaitUntilFinished() }},
		{"Bind", func(e *raceEnv) {
			// a further queue bound to the running worker, and a job through it
			k := Prio
			if e.q.Kind == Prio {
				k = Fifo
			}
			nq := e.w.Bind(k, nil)
			e.next++
			nq.Add(300+e.next, AddOpt{})
		}},
		{"BatchRead", func(e *raceEnv) {
			if e.batch != nil && e.batch.Results != nil {
				e.h.ReadStream(e.batch)
			} else if e.batch != nil {
				e.h.BatchWait(e.batch)
			}
		}},
	}
}

type raceBase struct {
	name  string
	setup func(h *H) *raceEnv
	full  bool // all pairs in the quick tier
}

func raceBases() []raceBase {
	return []raceBase{
		{"idle", func(h *H) *raceEnv {
			w := h.NewWorker(ResW, 2)
			q := w.Bind(Fifo, nil)
			j := q.Add(0, AddOpt{})
			h.Quiesce(true)
			return &raceEnv{h: h, w: w, q: q, pend: j}
		}, true},
		{"inflight", func(h *H) *raceEnv {
			h.Shape = Gated
			w := h.NewWorker(Plain, 2)
			q := w.Bind(Prio, nil)
			b := q.Add(0, AddOpt{})
			q.Add(1, AddOpt{})
			p := q.Add(2, AddOpt{})
			h.Quiesce(false)
			return &raceEnv{h: h, w: w, q: q, busy: b, pend: p}
		}, true},
		{"dispatching", func(h *H) *raceEnv {
			// the pair starts while the first job is still on its way through the dispatcher
			w := h.NewWorker(ErrW, 2)
			q := w.Bind(Fifo, nil)
			j := q.Add(0, AddOpt{})
			return &raceEnv{h: h, w: w, q: q, pend: j}
		}, false},
		{"batch", func(h *H) *raceEnv {
			h.Shape = Gated
			w := h.NewWorker(ResW, 2)
			q := w.Bind(Fifo, nil)
			b := q.AddAll([]int{0, 1, 2}, nil)
			h.Quiesce(false)
			return &raceEnv{h: h, w: w, q: q, batch: b, busy: h.jobByTag[0]}
		}, false},
		{"expiry", func(h *H) *raceEnv {
			w := h.NewWorker(Plain, 2, varmq.WithIdleWorkerExpiryDuration(time.Second), varmq.WithContext(context.Background()))
			q := w.Bind(Fifo, nil)
			q.Add(0, AddOpt{})
			j := q.Add(1, AddOpt{})
			h.Quiesce(true)
			vrt.Arm(1)
			return &raceEnv{h: h, w: w, q: q, pend: j}
		}, false},
		{"errbatch", func(h *H) *raceEnv {
			h.Beh[0], h.Beh[1] = BErr, BPanic
			w := h.NewWorker(ErrW, 2)
			q := w.Bind(Prio, nil)
			b := q.AddAll([]int{0, 1}, nil)
			j := q.Add(2, AddOpt{})
			return &raceEnv{h: h, w: w, q: q, batch: b, pend: j}
		}, false},
	}
}

func init() {
	ops := raceOps()
	for _, base := range raceBases() {
		base := base
		for i := range ops {
			for k := i; k < len(ops); k++ {
				a, b := ops[i], ops[k]
				only := ""
				if !base.full {
					// quick tier: the pairs that involve the base state's special resource; the rest in thorough
					special := map[string]bool{"BatchRead": true, "AddAll": true, "Restart": true, "Stop": true, "StatusCtx": true, "Add": true, "Counts": true, "Purge": true, "Bind": true}
					if base.name == "dispatching" {
						special = map[string]bool{"JobClose": true, "Status": true, "WaitResult": true, "Purge": true, "Add": true, "Counts": true, "PauseResume": true}
					}
					if !(special[a.name] && special[b.name]) {
						only = "thorough"
					}
				}
				quick := 1
				if base.name == "dispatching" {
					// the overlap of a call with the dispatch of the same job needs two deviations
					quick = 2
					if !(a.name == "JobClose" && (b.name == "JobClose" || b.name == "Purge")) && !(a.name == "Status" && b.name == "JobClose") && !(a.name == "WaitResult" && b.name == "JobClose") {
						only = "thorough"
					}
				}
				Register(&Scenario{
					Name:  name("race/%s/%s+%s", base.name, a.name, b.name),
					Props: []string{"C19"}, Race: true, Only: only,
					Mode: "NB", Quick: quick, Thorough: 2, Shards: 1,
					Body: func(h *H) {
						h.NoRest = true
						e := base.setup(h)
						go func() { a.f(e) }()
						go func() { b.f(e) }()
						vrt.Quiesce()
						// release whatever is gated so that the run paths of completion are exercised too
						for _, jr := range h.Jobs {
							h.Open(jr.Tag)
						}
						vrt.Quiesce()
						if e.w.Wk.IsPaused() {
							e.w.Wk.Resume()
						}
						for _, jr := range h.Jobs {
							h.Open(jr.Tag)
						}
						vrt.Quiesce()
					},
				})
			}
		}
	}
}

// ---- pair/*: the same pairs of API calls from the same base states, explored in normal mode and judged by the whole
// functional oracle suite (every property with a generic clause), not by the race detector. The epilogue opens every
// gate and ends with a Restart that runs alone, after which every accepted job not cancelled must have run once and
// every handle must have completed.
func init() {
	ops := raceOps()
	props := []string{"C01", "C02", "C03", "C05", "C06", "C08", "C09", "C10", "C16", "C17", "C18"}
	for _, base := range raceBases() {
		base := base
		for i := range ops {
			for k := i; k < len(ops); k++ {
				a, b := ops[i], ops[k]
				only := "thorough"
				if base.name == "inflight" || base.name == "batch" {
					only = ""
				}
				body := func(h *H) {
					e := base.setup(h)
					go func() { a.f(e) }()
					go func() { b.f(e) }()
					h.Quiesce(false)
					for _, jr := range h.Jobs {
						h.Open(jr.Tag)
					}
					for t := 100; t < 340; t++ {
						h.Open(t)
					}
					h.Quiesce(false)
					e.w.Restart()
					h.End()
				}
				Register(&Scenario{
					Name:  name("pair/%s/%s+%s", base.name, a.name, b.name),
					Props: props, Only: only,
					Mode: "NB", Quick: 1, Thorough: 1, Shards: 1,
					Body: body,
				})
				// two deviations: 816 scenarios of about a minute each - every base state is part of the thorough check of
				// two properties (thoroughShare's rule, applied here by hand)
				share := map[string][]string{"idle": {"C01", "C02"}, "inflight": {"C03", "C05"}, "dispatching": {"C06", "C10"},
					"batch": {"C08", "C16"}, "expiry": {"C18", "C17"}, "errbatch": {"C09", "C17"}}[base.name]
				Register(&Scenario{
					Name:  name("pair2/%s/%s+%s", base.name, a.name, b.name),
					Props: share, Only: "thorough",
					Mode: "NB", Quick: 2, Thorough: 2, Shards: 1,
					Body: body,
				})
				if only == "thorough" {
					// the other base states belong to the quick tier of the pool / counter properties (all three pool
					// defects this family found were in them)
					Register(&Scenario{
						Name:  name("pairq/%s/%s+%s", base.name, a.name, b.name),
						Props: []string{"C18", "C17", "C03"}, Only: "quick",
						Mode: "NB", Quick: 1, Thorough: 1, Shards: 1,
						Body: body,
					})
				}
			}
		}
	}
}
