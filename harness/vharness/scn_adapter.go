package vharness

import (
	"fmt"
)

// Scenario families on persistent / distributed adapters: acknowledgement discipline and crash cuts (C11),
// distributed consumers (C13), readers of the counters (C17).

// crashCuts checks, for every prefix of the adapter-call log of this execution, the crash-consistency
// invariant: every accepted item is completely processed or still held by the adapter (pending or
// unacknowledged). It returns the set of distinct crash states (canonical form) for the coverage report.
func (h *H) crashCuts(a *Adapter) {
	type st struct{ pending, unacked, done bool }
	items := map[int]*st{}
	ackTag := map[string]int{}
	endsBefore := func(tag, seq int) bool {
		jr := h.jobByTag[tag]
		if jr == nil {
			return false
		}
		for _, e := range jr.Ends {
			if e < seq {
				return true
			}
		}
		return false
	}
	for _, c := range a.Log {
		switch c.Op {
		case "enq":
			if c.OK {
				items[tagOfData(c.Data)] = &st{pending: true}
			}
		case "deq":
			if c.OK {
				t := tagOfData(c.Data)
				if items[t] == nil {
					items[t] = &st{}
				}
				items[t].pending, items[t].unacked = false, true
				ackTag[c.Ack] = t
			}
		case "deq-plain":
			if c.OK {
				t := tagOfData(c.Data)
				if items[t] == nil {
					items[t] = &st{}
				}
				items[t].pending = false // gone from the adapter without a receipt
			}
		case "ack":
			if c.OK {
				if t, ok := ackTag[c.Ack]; ok && items[t] != nil {
					items[t].unacked = false
				}
			}
		}
		// the process may die right after this adapter call
		for t, s := range items {
			if !s.pending && !s.unacked && !endsBefore(t, c.Seq) && !h.adapterSkipTag(t) {
				h.viol("C11", "C11.crash-lost", "at a crash point an accepted item is neither completely processed nor held by the adapter")
			}
		}
	}
}

func (h *H) adapterSkipTag(tag int) bool { return false }

func init() {
	adapterKinds := []QK{Pers, PersPrio, Dist, DistPrio}
	// ---- ack: acknowledge only after processing, at most once; faults refused at any adapter call (C11) -------
	for _, qk := range adapterKinds {
		qk := qk
		for _, c := range []int{1, 2} {
			c := c
			for _, f := range []int{0, 1} {
				f := f
				Register(&Scenario{
					Name:  name("ack/%s/c%df%d", qk, c, f),
					Props: []string{"C11", "C01", "C03", "C13", "C17", "C07", "C12"},
					Mode:  "NB", Quick: 2, Thorough: 3, Shards: 8,
					Body: func(h *H) {
						h.Beh[2] = BPanic // a delivery whose worker function panics is acknowledged like any other: once, afterwards
						w := h.NewWorker(Plain, c)
						q := w.Bind(qk, nil)
						q.Ad.Faults, q.Ad.MaxFault = f > 0, 2
						q.Add(0, AddOpt{WithID: true, Prio: 2})
						go func() { q.Add(1, AddOpt{Prio: 1}) }()
						q.Add(2, AddOpt{Prio: 1})
						h.Quiesce(true)
						h.crashCuts(q.Ad)
						// with no fault injected everything must have been processed and acknowledged
						if q.Ad.NFaults == 0 {
							if len(q.Ad.unacked) != 0 || len(q.Ad.items) != 0 {
								h.viol("C11", "C11.unacked-at-rest", fmt.Sprintf("at rest the adapter still holds %d pending and %d unacknowledged items", len(q.Ad.items), len(q.Ad.unacked)))
							}
							h.End()
						} else {
							h.NoRest = true
							// whatever the adapter refuses, every finished invocation is counted once, as a success or as a failure
							{
								ends := 0
								for _, jr := range h.Jobs {
									ends += len(jr.Ends)
								}
								m := w.Wk.Metrics()
								if int(m.Completed()) != ends || int(m.Successful()+m.Failed()) != ends {
									h.viol("C17", "C17.rest-completed", fmt.Sprintf("Completed()=%d, Successful()+Failed()=%d at rest with %d finished invocations", m.Completed(), m.Successful()+m.Failed(), ends))
								}
							}
							// a refused dequeue is an error, not a stop: when nothing but dequeues was refused every accepted
							// item must still have been processed and acknowledged, with no further prompting
							if q.Ad.FaultsBy["enq"] == 0 && q.Ad.FaultsBy["ack"] == 0 && (len(q.Ad.items) != 0 || len(q.Ad.unacked) != 0) {
								h.viol("C11", "C11.fault-stall", "after a refused dequeue accepted items stay on the adapter although the worker is running and idle")
								h.viol("C03", "C03.stuck", "an accepted job was never started although the worker is running and idle")
							}
							// an accepted item may only be missing from the run set if the adapter still holds it
							for _, jr := range h.Jobs {
								if !jr.Accepted || len(jr.Ends) > 0 {
									continue
								}
								held := false
								for _, it := range q.Ad.items {
									if tagOfData(string(it.data)) == jr.Tag {
										held = true
									}
								}
								for _, it := range q.Ad.unacked {
									if tagOfData(string(it.data)) == jr.Tag {
										held = true
									}
								}
								if !held {
									h.viol("C11", "C11.lost-under-fault", "after an adapter fault an accepted item was neither processed nor left on the adapter")
								}
							}
						}
					},
				})
			}
		}
		// recovery: a new worker bound to an adapter that already holds items processes all of them unprompted
		for n := 1; n <= 3; n++ {
			n := n
			Register(&Scenario{
				Name:  name("recover/%s/n%d", qk, n),
				Props: []string{"C11", "C13", "C01"},
				Mode:  "NB", Quick: 2, Thorough: 3, Shards: 4,
				Body: func(h *H) {
					ad := h.NewAdapter(qk.IsPrio())
					// the recovered adapter: former pending and unacknowledged items, re-queued
					for i := 0; i < n; i++ {
						jr := &JobRec{Tag: i, Accepted: true, AddCall: 1, AddRet: 1, WantID: fmt.Sprintf("id%d", i)}
						h.jobByTag[i] = jr
						h.Jobs = append(h.Jobs, jr)
						ad.enqueue([]byte(fmt.Sprintf(`{"id":"id%d","status":"Created","data":%d}`, i, i)), n-i)
					}
					w := h.NewWorker(Plain, min(n, 2))
					for _, jr := range h.Jobs {
						jr.W = w
					}
					// the recovering worker may meet one refused dequeue: it must still drain everything
					ad.Faults, ad.MaxFault = n <= 2, 1
					ad.FaultOnly = "deq"
					q := w.Bind(qk, ad)
					for _, jr := range h.Jobs {
						jr.Q = q
					}
					h.NoRest = true
					h.End()
					h.crashCuts(ad)
					if len(ad.unacked) != 0 || len(ad.items) != 0 {
						h.viol("C11", "C11.recover", fmt.Sprintf("a worker bound to a recovered adapter left %d pending and %d unacknowledged items", len(ad.items), len(ad.unacked)))
						if qk == Dist || qk == DistPrio {
							h.viol("C13", "C13.drain", "items already on the shared adapter when the consumer was bound were not all processed")
						}
					}
				},
			})
		}
	}

	// ---- stored entries that are not processed (status Closed, undecodable) are not acknowledged (C11, C12) ------
	for _, qk := range []QK{Pers, DistPrio} {
		qk := qk
		Register(&Scenario{
			Name:  name("recover-bad/%s", qk),
			Props: []string{"C11", "C12", "C01"},
			Mode:  "NB", Quick: 1, Thorough: 2, Shards: 4,
			Body: func(h *H) {
				ad := h.NewAdapter(qk.IsPrio())
				mk := func(i int, status string) {
					ad.enqueue([]byte(fmt.Sprintf(`{"id":"id%d","status":"%s","data":%d}`, i, status, i)), i)
				}
				for _, i := range []int{0, 2} {
					jr := &JobRec{Tag: i, Accepted: true, AddCall: 1, AddRet: 1, WantID: fmt.Sprintf("id%d", i)}
					h.jobByTag[i] = jr
					h.Jobs = append(h.Jobs, jr)
				}
				mk(0, "Queued")
				mk(1, "Closed") // a cancelled job that was stored: skipped, not processed
				ad.PushRaw([]byte("{{{not json"))
				mk(2, "Created")
				w := h.NewWorker(Plain, 1)
				q := w.Bind(qk, ad)
				for _, jr := range h.Jobs {
					jr.W, jr.Q = w, q
				}
				h.NoRest = true
				h.End()
				h.crashCuts(ad)
			},
		})
	}

	// ---- a user-supplied in-process queue that also implements IAcknowledgeable (WithQueue / WithPriorityQueue) ----
	for _, kp := range []kindPair{{Plain, Cust}, {ErrW, Cust}, {ResW, CustPrio}, {Plain, CustPrio}} {
		kp := kp
		for _, f := range []int{0, 1} {
			f := f
			Register(&Scenario{
				Name:  name("custom/%s/f%d", kp, f),
				Props: []string{"C05", "C01", "C03", "C07", "C16", "C17"},
				Mode:  "NB", Quick: 2, Thorough: 3, Shards: 4,
				Body: func(h *H) {
					h.HangProp = "C05"
					h.Beh[1] = BErr
					w := h.NewWorker(kp.W, 2)
					q := w.Bind(kp.Q, nil)
					q.Ad.Faults, q.Ad.MaxFault = f > 0, 1
					q.Ad.FaultOnly = "ack"
					j0 := q.Add(0, AddOpt{Prio: 1})
					j1 := q.Add(1, AddOpt{})
					wait := func(j *JobRec) {
						switch kp.W {
						case ResW:
							h.Result(j)
						case ErrW:
							h.Err(j)
						default:
							h.Wait(j)
						}
					}
					go func() { wait(j0); h.Wait(j0) }()
					go func() { h.Wait(j1); wait(j1) }()
					h.NoRest = f > 0
					h.End()
				},
			})
		}
	}

	// ---- distributed consumers on one shared adapter (C13, C11, C01) ---------------------------------------------
	for _, qk := range []QK{Dist, DistPrio} {
		qk := qk
		for _, k := range []int{1, 2, 3} {
			k := k
			only := ""
			if k == 3 {
				only = "thorough"
			}
			Register(&Scenario{
				Name:  name("dist/%s/k%d", qk, k), Only: only,
				Props: []string{"C13", "C11", "C01", "C17"},
				Mode:  "NB", Quick: 2, Thorough: 3, Shards: 8,
				Body: func(h *H) {
					ad := h.NewAdapter(qk.IsPrio())
					var ws []*W
					var qs []*Q
					for i := 0; i < k; i++ {
						c := 1
						if i == 1 {
							c = 2
						}
						w := h.NewWorker(Plain, c)
						ws = append(ws, w)
					}
					prod := func(tag, prio int) {
						// a producer that is not a consumer: uses the queue wrapper of consumer 0
						qs[0].Add(tag, AddOpt{WithID: true, Prio: prio})
					}
					for _, w := range ws {
						qs = append(qs, w.Bind(qk, ad))
					}
					h.Quiesce(true)
					go func() { prod(0, 2); prod(1, 1) }()
					if k > 1 {
						go func() { qs[1].Add(2, AddOpt{Prio: 1}) }()
					} else {
						prod(2, 1)
					}
					h.Quiesce(true)
					h.crashCuts(ad)
					for _, w := range ws {
						if s := int(w.Wk.Metrics().Submitted()); s != w.Notified {
							h.viol("C13", "C13.submitted", fmt.Sprintf("consumer counted %d submissions for %d notifications", s, w.Notified))
						}
					}
					if len(ad.items) != 0 || len(ad.unacked) != 0 {
						h.viol("C13", "C13.drain", fmt.Sprintf("the consumers left %d items pending and %d unacknowledged on the shared adapter", len(ad.items), len(ad.unacked)))
					}
					h.NoRest = true
					h.End()
				},
			})
		}
		// announcements that lag behind the stores (pub/sub): every item must still be drained
		for _, c := range []int{1, 2} {
			c := c
			Register(&Scenario{
				Name:  name("dist-async/%s/c%d", qk, c),
				Props: []string{"C13", "C03", "C11"},
				Mode:  "NB", Quick: 2, Thorough: 3, Shards: 8,
				Body: func(h *H) {
					ad := h.NewAdapter(qk.IsPrio())
					ad.AsyncNotify = true
					w := h.NewWorker(Plain, c)
					q := w.Bind(qk, ad)
					h.Quiesce(true)
					for i := 0; i <= c; i++ {
						q.Add(i, AddOpt{WithID: true, Prio: c - i})
					}
					h.Quiesce(true)
					h.crashCuts(ad)
					if s := int(w.Wk.Metrics().Submitted()); s != w.Notified {
						h.viol("C13", "C13.submitted", fmt.Sprintf("consumer counted %d submissions for %d notifications", s, w.Notified))
					}
					if len(ad.items) != 0 || len(ad.unacked) != 0 {
						h.viol("C13", "C13.drain", "items announced after later items had been stored were not all processed")
					}
					h.NoRest = true
					h.End()
				},
			})
		}
		// items already present when the consumer is bound, and items announced while all its workers are busy
		Register(&Scenario{
			Name:  name("dist-busy/%s", qk),
			Props: []string{"C13", "C03"},
			Mode:  "NB", Quick: 2, Thorough: 3, Shards: 8,
			Body: func(h *H) {
				h.Shape = Gated
				ad := h.NewAdapter(qk.IsPrio())
				jr := &JobRec{Tag: 9, Accepted: true, AddCall: 1, AddRet: 1, WantID: "id9"}
				h.jobByTag[9] = jr
				h.Jobs = append(h.Jobs, jr)
				ad.enqueue([]byte(`{"id":"id9","status":"Created","data":9}`), 0)
				w := h.NewWorker(Plain, 1)
				jr.W = w
				q := w.Bind(qk, ad)
				jr.Q = q
				h.Quiesce(false)
				// the only worker is busy with item 9 while two more are announced
				q.Add(0, AddOpt{WithID: true})
				go func() { q.Add(1, AddOpt{WithID: true}) }()
				h.Quiesce(false)
				h.OpenAll(9, 0, 1)
				h.NoRest = true
				h.End()
				if len(ad.items) != 0 || len(ad.unacked) != 0 {
					h.viol("C13", "C13.drain", "items announced while every worker was busy were not all processed")
				}
			},
		})
	}

	// ---- readers of the counters, interleaved inside the getters (C17) -------------------------------------------
	for _, kp := range []kindPair{{Plain, Fifo}, {Plain, Prio}, {ResW, Fifo}, {Plain, Pers}} {
		kp := kp
		Register(&Scenario{
			Name:  name("readers/%s", kp),
			Props: []string{"C17"},
			Mode:  "PB", Quick: 2, Thorough: 3, Shards: 16,
			Body: func(h *H) {
				h.Shape = Instant
				w := h.NewWorker(kp.W, 1)
				q := w.Bind(kp.Q, nil)
				started := func() int {
					n := 0
					for _, jr := range h.Jobs {
						if jr.AddCall > 0 {
							n++
						}
					}
					return n
				}
				go func() {
					for i := 0; i < 2; i++ {
						np := q.Base.NumPending()
						if ub := started(); np < 0 || np > ub {
							h.viol("C17", "C17.reader-pending", readerMsg("queue", np, ub))
						}
					}
					wp := w.Wk.NumPending()
					if ub := started(); wp < 0 || wp > ub {
						h.viol("C17", "C17.reader-pending", readerMsg("worker", wp, ub))
					}
					if p := w.Wk.NumProcessing(); p < 0 || p > 1 {
						h.viol("C17", "C17.reader-processing", fmt.Sprintf("a concurrent reader saw NumProcessing()=%d at limit 1", p))
					}
				}()
				q.Add(0, AddOpt{})
				q.Add(1, AddOpt{})
				h.End()
			},
		})
	}
	Register(&Scenario{
		Name:  "readers-purge",
		Props: []string{"C17", "C10"},
		Mode:  "NB", Quick: 2, Thorough: 3, Shards: 8,
		Body: func(h *H) {
			h.Shape = Instant
			w := h.NewWorker(Plain, 1)
			q := w.Bind(Fifo, nil)
			w.Pause()
			q.Add(0, AddOpt{})
			q.Add(1, AddOpt{})
			go func() {
				for i := 0; i < 2; i++ {
					if np := q.Base.NumPending(); np < 0 || np > 3 {
						h.viol("C17", "C17.reader-pending", readerMsg("queue", np, 3))
					}
				}
			}()
			go func() { q.Purge() }()
			q.Add(2, AddOpt{})
			w.Resume()
			h.End()
		},
	})
}

func readerMsg(what string, v, ub int) string {
	if v < 0 {
		return "a concurrent reader saw a negative " + what + " NumPending()"
	}
	return "a concurrent reader saw " + what + " NumPending() above the number of submissions begun"
}
