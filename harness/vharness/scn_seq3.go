package vharness

import (
	"fmt"
	"sort"

	"github.com/goptics/varmq/internal/vrt"
)

// Engine B, batch order (C04): the items of one AddAll are accepted in slice order. Every priority vector over a
// small alphabet up to a length bound is submitted as one batch to a paused worker with concurrency 1 (optionally
// behind jobs that are already pending), and the start order is compared with the stable sort of the acceptance
// order by priority (the slice order on a FIFO queue).

// runBatchOrder returns the clause and detail of the first disagreement, or "".
func runBatchOrder(kp kindPair, pre []int, prios []int) (clause, detail string) {
	h := NewH()
	h.NoMon = true
	h.Shape = Instant
	x := vrt.Run(nil, nil, nil, func() {
		w := h.NewWorker(kp.W, 1)
		q := w.Bind(kp.Q, nil)
		w.PauseAndWait()
		tag := 0
		type ent struct{ tag, prio, seq int }
		var want []ent
		for _, p := range pre {
			q.Add(tag, AddOpt{Prio: p})
			want = append(want, ent{tag, p, tag})
			tag++
		}
		tags := make([]int, len(prios))
		for i := range prios {
			tags[i] = tag
			want = append(want, ent{tag, prios[i], tag})
			tag++
		}
		q.AddAll(tags, prios)
		if kp.Q.IsPrio() {
			sort.SliceStable(want, func(i, j int) bool { return want[i].prio < want[j].prio })
		}
		if n := q.Base.NumPending(); n != len(want) {
			clause, detail = "C04.batch-accepted", "the queue does not hold every item of the batch"
			return
		}
		w.Resume()
		vrt.Quiesce()
		type st struct{ tag, at int }
		var got []st
		for _, jr := range h.Jobs {
			if len(jr.Starts) != 1 {
				clause, detail = "C04.batch-ran", "a batch item did not run exactly once"
				return
			}
			got = append(got, st{jr.Tag, jr.Starts[0]})
		}
		sort.Slice(got, func(i, j int) bool { return got[i].at < got[j].at })
		for i := range got {
			if got[i].tag != want[i].tag {
				what := "slice order"
				if kp.Q.IsPrio() {
					what = "priority order with ties in slice order"
				}
				clause, detail = "C04.batch-order", "the items of one AddAll did not start in "+what
				return
			}
		}
	})
	if clause != "" {
		return
	}
	if x.Crash != "" {
		return "C04.crash", firstLine(x.Crash) + " @ " + x.CrashFrame
	}
	if x.EngineErr != "" {
		return "engine", x.EngineErr
	}
	if x.UserBlocked > 0 {
		return "C04.hang", "the scenario thread blocked"
	}
	return "", ""
}

// enumBatchOrder: all priority vectors over {0..alpha-1} of length lo..hi, after each of the given pre-populations.
func enumBatchOrder(r *SeqReport, kp kindPair, alpha, lo, hi int, pres [][]int) {
	seen := map[string]bool{}
	for _, pre := range pres {
		for n := lo; n <= hi; n++ {
			prios := make([]int, n)
			total := 1
			for i := 0; i < n; i++ {
				total *= alpha
			}
			if !kp.Q.IsPrio() {
				total = 1 // the priorities are not looked at
			}
			for c := 0; c < total; c++ {
				v := c
				for i := 0; i < n; i++ {
					prios[i] = v % alpha
					v /= alpha
				}
				r.Traces++
				r.Transitions += int64(n + len(pre) + 2)
				r.States++
				cl, det := runBatchOrder(kp, pre, prios)
				cs := fmt.Sprintf("%s pre=%v batch priorities=%v", kp, pre, prios)
				if cl == "engine" {
					r.Notes = append(r.Notes, "ENGINE: "+det)
					r.Exhaustive = false
					continue
				}
				if cl != "" {
					key := cl + "|" + det
					if !seen[key] && len(r.V) < 20 {
						seen[key] = true
						r.V = append(r.V, SeqViolation{"C04", cl, det, cs})
					}
				} else if len(r.Samples) < 2 && n >= 3 && c == total/2 {
					r.Samples = append(r.Samples, cs)
				}
			}
			if n > r.MaxDepth {
				r.MaxDepth = n
			}
		}
	}
	r.Distinct = r.States
}

func init() {
	pres := [][]int{{}, {1}, {0, 1}}
	for _, kp := range memKinds() {
		kp := kp
		if !kp.Q.IsPrio() {
			Register(&Scenario{
				Name: "seq-batch-order/" + kp.String(), Props: []string{"C04"}, Seq: true,
				SeqRun: func(r *SeqReport) {
					r.Exhaustive = true
					enumBatchOrder(r, kp, 1, 0, 40, pres)
					r.Notes = append(r.Notes, "one AddAll of 0..40 items behind 0..2 pending jobs, paused worker with concurrency 1: start order = slice order")
				},
			})
			continue
		}
		Register(&Scenario{
			Name: "seq-batch-order/" + kp.String() + "/q", Props: []string{"C04"}, Seq: true, Only: "quick",
			SeqRun: func(r *SeqReport) {
				r.Exhaustive = true
				enumBatchOrder(r, kp, 3, 0, 7, pres)
				enumBatchOrder(r, kp, 2, 8, 13, [][]int{{}})
				r.Notes = append(r.Notes, "one AddAll with every priority vector over {0,1,2} of length <= 7 behind 0..2 pending jobs, and over {0,1} of length 8..13 (the standard library's sort routines change algorithm at 12 elements); start order = stable sort of the slice order by priority")
			},
		})
		for _, n := range []int{14, 15, 16} {
			n := n
			Register(&Scenario{
				Name: fmt.Sprintf("seq-batch-order/%s/n%d", kp, n), Props: []string{"C04"}, Seq: true, Only: "thorough",
				SeqRun: func(r *SeqReport) {
					r.Exhaustive = true
					if n == 14 {
						enumBatchOrder(r, kp, 3, 0, 9, pres)
						enumBatchOrder(r, kp, 2, 10, 14, [][]int{{}, {1}})
					} else {
						enumBatchOrder(r, kp, 2, n, n, [][]int{{}})
					}
					r.Notes = append(r.Notes, fmt.Sprintf("one AddAll, priority vectors over {0,1,2} up to length 9 and over {0,1} up to length %d", n))
				},
			})
		}
	}
}
