// vexplore: per-shard explorer process. It is built inside the instrumented copy of the module.
package main

import (
	"encoding/json"
	"flag"
	"fmt"
	"os"
	"sort"
	"strings"
	"time"

	vh "github.com/goptics/varmq/internal/vharness"
	"github.com/goptics/varmq/internal/vrt"
	"github.com/goptics/varmq/internal/vrt/litmus"
)

type sample struct {
	Scenario string   `json:"scenario"`
	Choices  []int32  `json:"choices"`
	Events   []string `json:"events"`
}

type shardResult struct {
	Scenario   string           `json:"scenario"`
	Mode       string           `json:"mode"`
	Shard      int              `json:"shard"`
	NShards    int              `json:"nshards"`
	Race       bool             `json:"race"`
	Bounds     []vrt.BoundStats `json:"bounds"`
	Found      []*vrt.Found     `json:"found"`
	EngineErr  string           `json:"engine_err,omitempty"`
	States     int              `json:"states"`
	StatesFull bool             `json:"states_capped"`
	StateKeys  string           `json:"state_keys_file,omitempty"`
	Hist       int              `json:"distinct_histories"`
	HistKeys   []uint64         `json:"hist_keys,omitempty"`
	MaxPoints  int              `json:"max_points"`
	MaxThreads int              `json:"max_threads"`
	Samples    []sample         `json:"samples"`
	Seq        *vh.SeqReport    `json:"seq,omitempty"`
	WallMs     int64            `json:"wall_ms"`
}

type replayFile struct {
	Scenario  string        `json:"scenario"`
	Mode      string        `json:"mode"`
	Race      bool          `json:"race"`
	Choices   []int32       `json:"choices"`
	NEnabled  []int32       `json:"nenabled"`
	Violation vrt.Violation `json:"violation"`
	Events    []string      `json:"events,omitempty"`
	Trace     []string      `json:"trace,omitempty"`
	SeqCase   string        `json:"seq_case,omitempty"`
}

func evStrings(h *vh.H) []string {
	var r []string
	for _, e := range h.Events {
		r = append(r, e.String())
	}
	return r
}

func main() {
	list := flag.Bool("list", false, "list scenarios as JSON")
	sname := flag.String("s", "", "scenario")
	mode := flag.String("mode", "", "PB|NB|DB (default: the scenario's)")
	from := flag.Int("from", 0, "first bound")
	to := flag.Int("to", 1, "last bound")
	shard := flag.String("shard", "0/1", "i/n")
	deadline := flag.Float64("deadline", 0, "seconds for this process (0 = none)")
	out := flag.String("out", "", "result file (JSON)")
	replay := flag.String("replay", "", "replay file: run exactly this schedule")
	stateOut := flag.String("statekeys", "", "file to dump state fingerprints to")
	lit := flag.String("litmus", "", "run the shim litmus suite exhaustively; write the explored outcome sets to this file")
	flag.Parse()
	vrt.SetExit(os.Exit)
	if *lit != "" {
		os.Exit(runLitmus(*lit))
	}
	if *list {
		json.NewEncoder(os.Stdout).Encode(vh.Sorted())
		return
	}
	if *replay != "" {
		os.Exit(doReplay(*replay))
	}
	sc := vh.Lookup(*sname)
	if sc == nil {
		fmt.Println("ERROR no such scenario:", *sname)
		os.Exit(2)
	}
	var si, sn int
	fmt.Sscanf(*shard, "%d/%d", &si, &sn)
	m := sc.Mode
	if *mode != "" {
		m = *mode
	}
	md, err := vrt.ParseMode(m)
	if err != nil {
		fmt.Println("ERROR", err)
		os.Exit(2)
	}
	t0 := time.Now()
	res := shardResult{Scenario: sc.Name, Mode: md.String(), Shard: si, NShards: sn, Race: vrt.RaceMode}
	if sc.Seq {
		rep := &vh.SeqReport{}
		sc.SeqRun(rep)
		res.Seq = rep
		res.WallMs = time.Since(t0).Milliseconds()
		write(*out, res)
		return
	}
	if vrt.RaceMode {
		vrt.OptStates = false
	}
	var lastH *vh.H
	e := &vrt.Explorer{Mode: md, Shard: si, NShards: sn}
	e.New = func() *vrt.Instance { return sc.Instance(func(h *vh.H) { lastH = h }) }
	if *deadline > 0 {
		e.Deadline = t0.Add(time.Duration(*deadline * float64(time.Second)))
	}
	nsamp := 0
	e.Sample = func(x *vrt.Exec, c []int32) {
		if si == 0 && nsamp < 2 && lastH != nil && (nsamp == 0 || len(c) > 0 && anyNonZero(c)) {
			res.Samples = append(res.Samples, sample{Scenario: sc.Name, Choices: trim(c), Events: evStrings(lastH)})
			nsamp++
		}
	}
	var raceLog *raceWatch
	if vrt.RaceMode {
		raceLog = newRaceWatch()
		e.New = func() *vrt.Instance {
			in := sc.Instance(func(h *vh.H) { lastH = h })
			chk := in.Check
			in.Check = func(x *vrt.Exec) ([]vrt.Violation, uint64) {
				v, h := chk(x)
				v = append(v, raceLog.newReports()...)
				return v, h
			}
			return in
		}
	}
	for b := *from; b <= *to; b++ {
		st := e.RunBound(b)
		res.Bounds = append(res.Bounds, st)
		if !st.Completed {
			break
		}
	}
	res.EngineErr = e.EngineErr
	res.Found = e.FoundSorted()
	res.States, res.StatesFull = vrt.States()
	res.Hist = len(e.Hist)
	for k := range e.Hist {
		res.HistKeys = append(res.HistKeys, k)
	}
	res.MaxPoints, res.MaxThreads = e.MaxPoints, e.MaxThr
	if *stateOut != "" {
		writeKeys(*stateOut, vrt.StateKeys())
		res.StateKeys = *stateOut
	}
	res.WallMs = time.Since(t0).Milliseconds()
	write(*out, res)
	if e.EngineErr != "" {
		fmt.Println("ERROR engine:", e.EngineErr)
		os.Exit(2)
	}
}

func anyNonZero(c []int32) bool {
	for _, v := range c {
		if v != 0 {
			return true
		}
	}
	return false
}

// trim drops the trailing default choices of a schedule.
func trim(c []int32) []int32 {
	n := len(c)
	for n > 0 && c[n-1] == 0 {
		n--
	}
	return append([]int32{}, c[:n]...)
}

func write(path string, v any) {
	b, _ := json.Marshal(v)
	if path == "" {
		os.Stdout.Write(append(b, '\n'))
		return
	}
	if err := os.WriteFile(path, b, 0o644); err != nil {
		fmt.Println("ERROR", err)
		os.Exit(2)
	}
}

func writeKeys(path string, keys []uint64) {
	b := make([]byte, 8*len(keys))
	for i, k := range keys {
		for j := 0; j < 8; j++ {
			b[i*8+j] = byte(k >> (8 * j))
		}
	}
	os.WriteFile(path, b, 0o644)
}

// doReplay runs one recorded schedule (without search) and reports whether the recorded violation reproduces.
func doReplay(path string) int {
	b, err := os.ReadFile(path)
	if err != nil {
		fmt.Println("ERROR", err)
		return 2
	}
	var rf replayFile
	if err := json.Unmarshal(b, &rf); err != nil {
		fmt.Println("ERROR", err)
		return 2
	}
	sc := vh.Lookup(rf.Scenario)
	if sc == nil {
		fmt.Println("ERROR no such scenario:", rf.Scenario)
		return 2
	}
	if sc.Seq {
		rep := &vh.SeqReport{}
		sc.SeqRun(rep)
		for _, v := range rep.V {
			if v.Case == rf.SeqCase || rf.SeqCase == "" {
				fmt.Printf("REPRODUCED %s|%s|%s case=%s\n", v.Prop, v.Clause, v.Detail, v.Case)
				return 1
			}
		}
		fmt.Println("NOT-REPRODUCED")
		return 0
	}
	if vrt.RaceMode {
		vrt.OptStates = false
	}
	var lastH *vh.H
	var trace []string
	var rw *raceWatch
	if vrt.RaceMode {
		rw = newRaceWatch()
	}
	in := sc.Instance(func(h *vh.H) { lastH = h })
	setup := in.Setup
	in.Setup = func(s *vrt.Sched) {
		setup(s)
		s.Trace = func(p vrt.PointRec, t *vrt.Thread) {
			if p.Chosen != 0 {
				trace = append(trace, fmt.Sprintf("point %d: thread %d (%s) at %s, %d enabled, chose %d", len(trace), p.Tid, t.Name, p.Kind, p.NEnabled, p.Chosen))
			}
		}
	}
	x := vrt.Run(rf.Choices, rf.NEnabled, in.Setup, in.Body)
	if x.EngineErr != "" || x.Diverged {
		fmt.Println("ERROR replay:", x.EngineErr, "diverged:", x.Diverged)
		return 2
	}
	v, _ := in.Check(x)
	if rw != nil {
		v = append(v, rw.newReports()...)
	}
	for _, e := range lastH.Events {
		fmt.Println("  ", e.String())
	}
	for _, t := range trace {
		fmt.Println("  #", t)
	}
	if x.Crash != "" {
		fmt.Println("   crash:", strings.SplitN(x.Crash, "\n", 2)[0], "@", x.CrashFrame)
	}
	for _, bl := range x.Blocked {
		fmt.Println("   not finished:", bl.String(), "lib:", bl.Lib)
	}
	rc := 0
	for _, vv := range v {
		tag := "OTHER"
		if vv.Sig() == rf.Violation.Sig() || rf.Violation.Prop == "" {
			tag = "REPRODUCED"
			rc = 1
		}
		fmt.Printf("%s %s\n", tag, vv.Sig())
	}
	if rc == 0 {
		fmt.Println("NOT-REPRODUCED")
	}
	return rc
}

// runLitmus explores every schedule of every litmus program (no bound) and compares the set of outcomes
// with the hand-derived allowed set: it must be equal (no behaviour invented, none missing).
func runLitmus(out string) int {
	vrt.OptPoolChoice = true
	vrt.OptStates = false
	explored := map[string][]string{}
	bad := 0
	var execs int64
	for _, p := range litmus.Programs {
		p := p
		seen := map[string]bool{}
		e := &vrt.Explorer{Mode: vrt.PB, NShards: 1}
		e.New = func() *vrt.Instance {
			res, done := "", false
			in := &vrt.Instance{}
			in.Body = func() { res = p.Run(); done = true }
			in.Check = func(x *vrt.Exec) ([]vrt.Violation, uint64) {
				o := res
				switch {
				case x.Crash != "":
					o = "crash: " + x.Crash
				case !done:
					o = "deadlock"
				}
				seen[o] = true
				return nil, 0
			}
			return in
		}
		st := e.RunBound(1 << 20)
		execs += st.Execs
		if e.EngineErr != "" || !st.Completed {
			fmt.Printf("LITMUS-ERROR %s: %s\n", p.Name, e.EngineErr)
			bad++
			continue
		}
		var outs []string
		for o := range seen {
			outs = append(outs, o)
		}
		sort.Strings(outs)
		explored[p.Name] = outs
		al := append([]string{}, p.Allowed...)
		sort.Strings(al)
		if strings.Join(outs, "|") != strings.Join(al, "|") {
			fmt.Printf("LITMUS-MISMATCH %s: explored outcomes %q, allowed %q (%d schedules)\n", p.Name, outs, al, st.Execs)
			bad++
		}
	}
	b, _ := json.MarshalIndent(explored, "", " ")
	os.WriteFile(out, b, 0o644)
	fmt.Printf("litmus explored: %d programs, %d schedules, %d mismatches\n", len(litmus.Programs), execs, bad)
	if bad > 0 {
		return 1
	}
	return 0
}
