//go:build race

package main

import (
	"os"
	"path/filepath"
	"sort"
	"strings"

	"github.com/goptics/varmq/internal/vrt"
)

// raceWatch turns the race detector into a per-execution oracle: after every execution it reads what the
// detector appended to its log (GORACE=log_path=...) and keeps the reports both of whose access sites are
// in the library (module code outside the scheduler/shims and outside the harness).
type raceWatch struct {
	prefix string
	off    map[string]int64
	seen   map[string]bool
}

func newRaceWatch() *raceWatch {
	return &raceWatch{prefix: os.Getenv("VRT_RACELOG"), off: map[string]int64{}, seen: map[string]bool{}}
}

const modp = "github.com/goptics/varmq"

func libFrame(fn string) bool {
	if !strings.HasPrefix(fn, modp) {
		return false
	}
	rest := strings.TrimPrefix(fn, modp)
	return !strings.HasPrefix(rest, "/internal/vrt") && !strings.HasPrefix(rest, "/internal/vharness") && !strings.HasPrefix(rest, "/cmd/")
}

func runtimeFrame(fn string) bool {
	return strings.HasPrefix(fn, "runtime.") || strings.HasPrefix(fn, "internal/") || strings.HasPrefix(fn, "sync.") || strings.HasPrefix(fn, "sync/atomic.")
}

// site returns the innermost non-runtime frame of a stack section.
func site(lines []string) string {
	for _, l := range lines {
		if !strings.HasPrefix(l, "  ") || strings.HasPrefix(l, "      ") {
			continue
		}
		fn := strings.TrimSpace(l)
		if i := strings.LastIndex(fn, "("); i > 0 {
			fn = fn[:i]
		}
		if runtimeFrame(fn) {
			continue
		}
		return fn
	}
	return ""
}

// clean drops the module path and every type-argument list (nested brackets) from a function name.
func clean(fn string) string {
	fn = strings.TrimPrefix(fn, modp)
	fn = strings.TrimLeft(fn, "/.")
	var b []byte
	depth := 0
	for i := 0; i < len(fn); i++ {
		switch fn[i] {
		case '[':
			depth++
		case ']':
			depth--
		default:
			if depth == 0 {
				b = append(b, fn[i])
			}
		}
	}
	// closure numbering (.func1.2) is an artefact of the compiler: keep the enclosing function only
	out := string(b)
	if i := strings.Index(out, ".func"); i >= 0 {
		j := i + len(".func")
		for j < len(out) && (out[j] == '.' || (out[j] >= '0' && out[j] <= '9')) {
			j++
		}
		out = out[:i] + ".func" + out[j:]
	}
	return out
}

func (r *raceWatch) newReports() []vrt.Violation {
	if r == nil || r.prefix == "" {
		return nil
	}
	files, _ := filepath.Glob(r.prefix + ".*")
	var out []vrt.Violation
	for _, f := range files {
		b, err := os.ReadFile(f)
		if err != nil || int64(len(b)) <= r.off[f] {
			continue
		}
		txt := string(b[r.off[f]:])
		r.off[f] = int64(len(b))
		for _, blk := range strings.Split(txt, "==================") {
			if !strings.Contains(blk, "WARNING: DATA RACE") {
				continue
			}
			lines := strings.Split(blk, "\n")
			var secs [][]string
			var cur []string
			for _, l := range lines {
				t := strings.TrimSpace(l)
				if strings.HasSuffix(t, ":") && (strings.Contains(t, " by goroutine ") || strings.Contains(t, " by main goroutine")) {
					if cur != nil {
						secs = append(secs, cur)
					}
					cur = []string{}
					continue
				}
				if strings.HasPrefix(t, "Goroutine ") && strings.HasSuffix(t, "created at:") {
					if cur != nil {
						secs = append(secs, cur)
					}
					cur = nil
					continue
				}
				if cur != nil {
					cur = append(cur, l)
				}
			}
			if cur != nil {
				secs = append(secs, cur)
			}
			if len(secs) < 2 {
				continue
			}
			a, b := site(secs[0]), site(secs[1])
			if !libFrame(a) || !libFrame(b) {
				continue
			}
			p := []string{clean(a), clean(b)}
			sort.Strings(p)
			sig := p[0] + " <-> " + p[1]
			if r.seen[sig] {
				continue
			}
			r.seen[sig] = true
			out = append(out, vrt.Violation{Prop: "C19", Clause: "C19.race", Detail: sig})
		}
	}
	return out
}
