//go:build !race

package main

import "github.com/goptics/varmq/internal/vrt"

type raceWatch struct{}

func newRaceWatch() *raceWatch                     { return nil }
func (r *raceWatch) newReports() []vrt.Violation { return nil }
