#!/bin/bash
# build.sh <outdir> [race]: instrument /repo's working tree into <outdir> and build the explorer there.
set -e
OUT=$1
export GOFLAGS=-mod=mod GOPROXY=off
cd /verif
[ -x bin/vinst ] || (cd engine/vinst && go build -o /verif/bin/vinst .)
rm -rf "$OUT"
./bin/vinst -repo ${REPO:-/repo} -out "$OUT" -shim engine/shim -harness harness -litmus engine/litmus
cd "$OUT"
if [ "$2" = race ]; then go build -race -o vexplore ./cmd/vexplore; else go build -o vexplore ./cmd/vexplore; fi
