#!/usr/bin/env python3
"""matrix.py <selftest-output>... : print the rows of the detection matrix (DESIGN 8.4) for the seeded changes
whose results appear in the given selftest.sh outputs. Notes come from seeded/<id>/meta.json ("note")."""
import json, re, sys, os, glob
res = {}
for f in sys.argv[1:]:
    for l in open(f):
        m = re.match(r"SELFTEST (\S+) (C\d\d): detected \(\d+ signatures: (.*?)\)", l)
        if m:
            res.setdefault(m.group(1), {})[m.group(2)] = m.group(3).strip()
        m = re.match(r"SELFTEST (\S+) (C\d\d): MISSED", l)
        if m:
            res.setdefault(m.group(1), {})[m.group(2)] = "MISSED"
root = os.path.join(os.path.dirname(os.path.abspath(__file__)), "..", "seeded")
for d in sorted(glob.glob(os.path.join(root, "*"))):
    i = os.path.basename(d)
    if i not in res:
        continue
    m = json.load(open(os.path.join(d, "meta.json")))
    caught = "; ".join(f"{p}: {c}" for p, c in res[i].items())
    print(f"| `{i}` | {m['breaks']} | {m['change']} | {caught} | {m.get('note','')} |")
