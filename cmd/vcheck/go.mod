module vcheck

go 1.23
