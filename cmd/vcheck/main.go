// vcheck: driver of the varmq model-checking framework.
//
//	vcheck <Cxx> <quick|thorough>     instrument /repo, build, explore every scenario of the property, write evidence
//	vcheck replay <file>              re-execute one recorded schedule without search
//	vcheck list                       list scenarios
//
// Exit 0: the property held on everything explored (possibly with exhaustive:false when a time slice ended);
// exit 1 with "VIOLATION property=<id> replay=<path>"; exit 2 with "ERROR ..." for engine failures.
package main

import (
	"encoding/json"
	"fmt"
	"os"
	"os/exec"
	"path/filepath"
	"regexp"
	"runtime"
	"sort"
	"strconv"
	"strings"
	"sync"
	"time"
)

type scenario struct {
	Name     string   `json:"name"`
	Props    []string `json:"props"`
	Mode     string   `json:"mode"`
	Quick    int      `json:"quick"`
	Thorough int      `json:"thorough"`
	Shards   int      `json:"shards"`
	Race     bool     `json:"race"`
	Seq      bool     `json:"seq"`
	Only     string   `json:"only"`
}

type violation struct {
	Prop   string `json:"prop"`
	Clause string `json:"clause"`
	Detail string `json:"detail"`
}

func (v violation) sig() string { return v.Prop + "|" + v.Clause + "|" + v.Detail }

type found struct {
	V        violation `json:"violation"`
	Choices  []int32   `json:"choices"`
	NEnabled []int32   `json:"nenabled"`
	Cost     int       `json:"cost"`
	Bound    int       `json:"bound"`
	Count    int64     `json:"count"`
}

type boundStats struct {
	Bound       int   `json:"bound"`
	Execs       int64 `json:"execs"`
	Transitions int64 `json:"transitions"`
	Completed   bool  `json:"completed"`
	Violating   int64 `json:"violating"`
	Nontrivial  int64 `json:"nontrivial_execs"`
	WallMs      int64 `json:"wall_ms"`
}

type seqViolation struct {
	Prop, Clause, Detail, Case string
}

type seqReport struct {
	States      int64
	Transitions int64
	Traces      int64
	MaxDepth    int
	Distinct    int64
	Samples     []string
	V           []seqViolation
	Notes       []string
	Exhaustive  bool
}

type shardResult struct {
	Scenario   string          `json:"scenario"`
	Mode       string          `json:"mode"`
	Shard      int             `json:"shard"`
	NShards    int             `json:"nshards"`
	Race       bool            `json:"race"`
	Bounds     []boundStats    `json:"bounds"`
	Found      []*found        `json:"found"`
	EngineErr  string          `json:"engine_err"`
	States     int             `json:"states"`
	StatesFull bool            `json:"states_capped"`
	StateKeys  string          `json:"state_keys_file"`
	Hist       int             `json:"distinct_histories"`
	HistKeys   []uint64        `json:"hist_keys"`
	MaxPoints  int             `json:"max_points"`
	MaxThreads int             `json:"max_threads"`
	Samples    []json.RawMessage `json:"samples"`
	Seq        *seqReport      `json:"seq"`
	WallMs     int64           `json:"wall_ms"`
}

type knownFinding struct {
	Property string `json:"property"`
	Clause   string `json:"clause"`
	Detail   string `json:"detail_regex"`
	Scenario string `json:"scenario_regex"`
	What     string `json:"what"`
	Status   string `json:"status"` // known | fixed
	Commit   string `json:"commit,omitempty"`
	MinBound *int   `json:"min_deviations,omitempty"`
}

type knownFile struct {
	Findings []knownFinding `json:"findings"`
}

var (
	verifDir = "/verif"
	repoDir  = "/repo"
	outDir   = "" // where evidence and replay files go (default: <verifDir>/evidence); VERIF_OUT overrides (self-tests)
)

func fatal(f string, a ...any) {
	fmt.Printf("ERROR "+f+"\n", a...)
	os.Exit(2)
}

func goEnv() []string {
	env := os.Environ()
	var out []string
	for _, e := range env {
		if strings.HasPrefix(e, "GOFLAGS=") || strings.HasPrefix(e, "GOPROXY=") || strings.HasPrefix(e, "GOCACHE=") || strings.HasPrefix(e, "GOTOOLCHAIN=") || strings.HasPrefix(e, "GOSUMDB=") || strings.HasPrefix(e, "GONOSUMDB=") || strings.HasPrefix(e, "GONOSUMCHECK=") || strings.HasPrefix(e, "GOMAXPROCS=") || strings.HasPrefix(e, "GORACE=") {
			continue
		}
		out = append(out, e)
	}
	return append(out, "GOFLAGS=-mod=mod", "GOPROXY=off", "GOTOOLCHAIN=auto", "GOCACHE="+filepath.Join(verifDir, ".cache", "go-build"))
}

func run(dir string, env []string, name string, args ...string) (string, error) {
	c := exec.Command(name, args...)
	c.Dir = dir
	c.Env = env
	b, err := c.CombinedOutput()
	return string(b), err
}

// build instruments the working tree of /repo into scratch and builds the explorer there.
func build(scratch string, race bool) string {
	vinst := filepath.Join(verifDir, "bin", "vinst")
	if _, err := os.Stat(vinst); err != nil {
		if out, err := run(filepath.Join(verifDir, "engine", "vinst"), goEnv(), "go", "build", "-o", vinst, "."); err != nil {
			fatal("building vinst: %v\n%s", err, out)
		}
	}
	mod := filepath.Join(scratch, "mod")
	out, err := run(verifDir, goEnv(), vinst, "-repo", repoDir, "-out", mod, "-shim", filepath.Join(verifDir, "engine", "shim"), "-harness", filepath.Join(verifDir, "harness"), "-litmus", filepath.Join(verifDir, "engine", "litmus"))
	if err != nil {
		fmt.Print(out)
		fatal("instrumentation failed (unsupported construct or the tree does not type-check): %v", err)
	}
	args := []string{"build"}
	if race {
		args = append(args, "-race")
	}
	args = append(args, "-o", filepath.Join(scratch, "vexplore"), "./cmd/vexplore")
	if out, err := run(mod, goEnv(), "go", args...); err != nil {
		fmt.Print(out)
		fatal("building the instrumented module failed: %v", err)
	}
	return filepath.Join(scratch, "vexplore")
}

func listScenarios(bin string) []scenario {
	out, err := exec.Command(bin, "-list").Output()
	if err != nil {
		fatal("listing scenarios: %v", err)
	}
	var s []scenario
	if err := json.Unmarshal(out, &s); err != nil {
		fatal("listing scenarios: %v", err)
	}
	return s
}

type task struct {
	sc       scenario
	shard, n int
	bound    int
	out      string
	keys     string
	deadline float64
	res      *shardResult
	err      string
	raceLog  string
	spin     *spinRec
}

// spinRec is what the explorer prints when its watchdog expires while a goroutine of the library holds the processor.
type spinRec struct {
	Thread   string  `json:"thread"`
	Site     string  `json:"site"`
	Choices  []int32 `json:"choices"`
	NEnabled []int32 `json:"nenabled"`
	Watchdog int     `json:"watchdog_s"`
}

func runTask(bin string, t *task, race bool) {
	args := []string{"-s", t.sc.Name, "-from", "0", "-to", strconv.Itoa(t.bound), "-shard", fmt.Sprintf("%d/%d", t.shard, t.n), "-out", t.out, "-deadline", fmt.Sprint(t.deadline)}
	if !race && !t.sc.Seq {
		args = append(args, "-statekeys", t.keys)
	}
	c := exec.Command(bin, args...)
	c.Env = append(os.Environ(), "GOMAXPROCS=1")
	if race {
		c.Env = append(os.Environ(), "GOMAXPROCS=2", "GORACE=halt_on_error=0 exitcode=0 log_path="+t.raceLog)
		c.Env = append(c.Env, "VRT_RACELOG="+t.raceLog)
	}
	b, err := c.CombinedOutput()
	if err != nil {
		if i := strings.LastIndex(string(b), "\nSPIN "); i >= 0 {
			// the explorer's watchdog found a goroutine of the library spinning without a synchronisation operation
			line := string(b)[i+6:]
			if j := strings.Index(line, "\n"); j >= 0 {
				line = line[:j]
			}
			var sp spinRec
			if json.Unmarshal([]byte(line), &sp) == nil {
				t.spin = &sp
				return
			}
		}
		t.err = fmt.Sprintf("%v: %s", err, tail(string(b), 3000))
	}
	data, rerr := os.ReadFile(t.out)
	if rerr != nil {
		if t.err == "" {
			t.err = rerr.Error()
		}
		return
	}
	var r shardResult
	if jerr := json.Unmarshal(data, &r); jerr != nil {
		t.err = jerr.Error()
		return
	}
	t.res = &r
}

func tail(s string, n int) string {
	if len(s) > n {
		return s[len(s)-n:]
	}
	return s
}

type scenarioSummary struct {
	Name           string `json:"scenario"`
	Mode           string `json:"mode"`
	BoundTarget    int    `json:"bound_target"`
	BoundCompleted int    `json:"bound_completed"`
	Execs          int64  `json:"executions"`
	Transitions    int64  `json:"transitions"`
	Nontrivial     int64  `json:"nontrivial_executions"`
	DistinctHist   int    `json:"distinct_histories"`
	Violating      int64  `json:"violating_executions"`
	MaxPoints      int    `json:"max_points"`
	MaxThreads     int    `json:"max_threads"`
	Exhaustive     bool   `json:"exhaustive_within_bound"`
	WallS          float64 `json:"wall_s"`
	Seq            bool   `json:"sequential_enumeration,omitempty"`
	States         int64  `json:"states,omitempty"`
	MaxDepth       int    `json:"max_depth,omitempty"`
	Notes          []string `json:"notes,omitempty"`
}

func main() {
	if v := os.Getenv("VERIF_DIR"); v != "" {
		verifDir = v
	}
	if v := os.Getenv("VERIF_REPO"); v != "" {
		repoDir = v
	}
	outDir = filepath.Join(verifDir, "evidence")
	if v := os.Getenv("VERIF_OUT"); v != "" {
		outDir = v
	}
	if len(os.Args) < 2 {
		fatal("usage: vcheck <Cxx> <quick|thorough> | replay <file> | list | litmus")
	}
	switch os.Args[1] {
	case "replay":
		if len(os.Args) < 3 {
			fatal("usage: vcheck replay <file>")
		}
		os.Exit(replay(os.Args[2]))
	case "litmus":
		os.Exit(litmusCmd())
	case "list":
		scratch, _ := os.MkdirTemp("", "varmq-verif-")
		defer os.RemoveAll(scratch)
		for _, s := range listScenarios(build(scratch, false)) {
			fmt.Printf("%-50s %s q%d t%d shards=%d race=%v props=%v\n", s.Name, s.Mode, s.Quick, s.Thorough, s.Shards, s.Race, s.Props)
		}
		return
	}
	prop := os.Args[1]
	tier := "quick"
	if len(os.Args) > 2 {
		tier = os.Args[2]
	}
	if t := os.Getenv("VERIF_TIER"); t != "" && len(os.Args) <= 2 {
		tier = t
	}
	if tier != "quick" && tier != "thorough" {
		fatal("tier must be quick or thorough")
	}
	os.Exit(check(prop, tier))
}

func replay(path string) int {
	data, err := os.ReadFile(path)
	if err != nil {
		fatal("%v", err)
	}
	var rf struct {
		Race bool `json:"race"`
	}
	json.Unmarshal(data, &rf)
	scratch, _ := os.MkdirTemp("", "varmq-verif-")
	defer os.RemoveAll(scratch)
	bin := build(scratch, rf.Race)
	c := exec.Command(bin, "-replay", path)
	c.Env = append(os.Environ(), "GOMAXPROCS=1")
	if rf.Race {
		lp := filepath.Join(scratch, "race")
		c.Env = append(os.Environ(), "GOMAXPROCS=2", "GORACE=halt_on_error=0 exitcode=0 log_path="+lp, "VRT_RACELOG="+lp)
	}
	c.Stdout, c.Stderr = os.Stdout, os.Stderr
	if err := c.Run(); err != nil {
		if ee, ok := err.(*exec.ExitError); ok {
			return ee.ExitCode()
		}
		return 2
	}
	return 0
}

func check(prop, tier string) int {
	t0 := time.Now()
	race := prop == "C19"
	scratch, err := os.MkdirTemp("", "varmq-verif-")
	if err != nil {
		fatal("%v", err)
	}
	defer os.RemoveAll(scratch)
	bin := build(scratch, race)
	buildS := time.Since(t0).Seconds()
	// the shim layer is the only hand-written model: re-validate it before trusting any verdict
	litOut, litErr := exec.Command(bin, "-litmus", filepath.Join(scratch, "litmus.json")).CombinedOutput()
	if litErr != nil {
		fmt.Print(string(litOut))
		fatal("shim litmus suite failed: the scheduler model disagrees with the allowed outcome sets")
	}
	litLine := strings.TrimSpace(string(litOut))
	var scs []scenario
	for _, s := range listScenarios(bin) {
		if s.Only != "" && s.Only != tier {
			continue
		}
		if race {
			if s.Race {
				scs = append(scs, s)
			}
			continue
		}
		for _, p := range s.Props {
			if p == prop {
				scs = append(scs, s)
			}
		}
	}
	if len(scs) == 0 {
		fatal("no scenario serves property %s", prop)
	}
	ncpu := runtime.NumCPU()
	if v, err := strconv.Atoi(os.Getenv("VERIF_JOBS")); err == nil && v > 0 {
		ncpu = v
	}
	slice := 45.0
	if race {
		slice = 150 // race mode runs ~150 executions/s; the NB2 scenarios of the "dispatching" base need ~80 s
	}
	if tier == "thorough" {
		slice = 600
	}
	if v, err := strconv.ParseFloat(os.Getenv("VERIF_SLICE"), 64); err == nil && v > 0 {
		slice = v
	}
	var tasks []*task
	for i, s := range scs {
		b := s.Quick
		if tier == "thorough" {
			b = s.Thorough
		}
		n := s.Shards
		if n > ncpu {
			n = ncpu
		}
		if n < 1 || s.Seq {
			n = 1
		}
		for k := 0; k < n; k++ {
			tasks = append(tasks, &task{sc: s, shard: k, n: n, bound: b, deadline: slice,
				out:     filepath.Join(scratch, fmt.Sprintf("r%d_%d.json", i, k)),
				keys:    filepath.Join(scratch, fmt.Sprintf("k%d_%d.bin", i, k)),
				raceLog: filepath.Join(scratch, fmt.Sprintf("race%d_%d", i, k))})
		}
	}
	// run the tasks on a pool of ncpu slots (race-mode processes use two OS threads: half the slots)
	slots := ncpu
	if race {
		slots = max(1, ncpu/2)
	}
	sem := make(chan struct{}, slots)
	var wg sync.WaitGroup
	for _, t := range tasks {
		wg.Add(1)
		sem <- struct{}{}
		go func(t *task) {
			defer wg.Done()
			runTask(bin, t, race)
			<-sem
		}(t)
	}
	wg.Wait()

	// merge
	known := loadKnown()
	type agg struct {
		f    *found
		scn  string
		mode string
	}
	foundBySig := map[string]*agg{}
	var sums []scenarioSummary
	var samples []json.RawMessage
	stateSet := map[uint64]struct{}{}
	statesCapped := false
	var totExec, totTrans, totNontriv int64
	var seqStates, seqTraces int64
	histAll := 0
	exhaustive := true
	engineErrs := []string{}
	for _, s := range scs {
		sum := scenarioSummary{Name: s.Name, Mode: s.Mode, Seq: s.Seq}
		sum.BoundTarget = s.Quick
		if tier == "thorough" {
			sum.BoundTarget = s.Thorough
		}
		sum.BoundCompleted = sum.BoundTarget
		hist := map[uint64]struct{}{}
		var wall int64
		nsh := 0
		for _, t := range tasks {
			if t.sc.Name != s.Name {
				continue
			}
			nsh++
			if t.spin != nil {
				// filed under the property being checked: the scenario was chosen as evidence for it and cannot complete
				v := violation{prop, prop + ".spin", "the execution cannot complete: library goroutine " + t.spin.Thread + " keeps running without reaching a synchronisation operation (watchdog)"}
				sig := v.Prop + "|" + v.Clause + "|" + v.Detail
				if foundBySig[sig+"@"+s.Name] == nil {
					foundBySig[sig+"@"+s.Name] = &agg{f: &found{V: v, Choices: t.spin.Choices, NEnabled: t.spin.NEnabled, Count: 1}, scn: s.Name, mode: s.Mode}
				}
				sum.BoundCompleted = -1
				continue
			}
			if t.err != "" {
				engineErrs = append(engineErrs, s.Name+": "+t.err)
			}
			r := t.res
			if r == nil {
				sum.BoundCompleted = -1
				continue
			}
			if r.EngineErr != "" {
				engineErrs = append(engineErrs, s.Name+": "+r.EngineErr)
			}
			if r.Seq != nil {
				sq := r.Seq
				sum.States, sum.MaxDepth, sum.Transitions, sum.Execs = sq.States, sq.MaxDepth, sq.Transitions, sq.Traces
				sum.Nontrivial, sum.DistinctHist, sum.Notes = sq.Distinct, int(sq.Distinct), sq.Notes
				if !sq.Exhaustive {
					sum.BoundCompleted = -1
				}
				seqStates += sq.States
				seqTraces += sq.Traces
				for _, smp := range sq.Samples {
					if len(samples) < 6 {
						b, _ := json.Marshal(map[string]string{"scenario": s.Name, "case": smp})
						samples = append(samples, b)
					}
				}
				for _, v := range sq.V {
					sig := v.Prop + "|" + v.Clause + "|" + v.Detail
					if foundBySig[sig+"@"+s.Name] == nil {
						foundBySig[sig+"@"+s.Name] = &agg{f: &found{V: violation{v.Prop, v.Clause, v.Detail}, Count: 1}, scn: s.Name + "#" + v.Case, mode: "SEQ"}
					}
				}
				sum.Violating = int64(len(sq.V))
				wall = max(wall, r.WallMs)
				continue
			}
			done := -1
			for _, b := range r.Bounds {
				if b.Completed {
					done = b.Bound
				}
				if b.Bound == sum.BoundTarget || !b.Completed {
					sum.Execs += b.Execs
					sum.Transitions += b.Transitions
					sum.Nontrivial += b.Nontrivial
					sum.Violating += b.Violating
				}
			}
			if done < sum.BoundCompleted {
				sum.BoundCompleted = done
			}
			for _, k := range r.HistKeys {
				hist[k] = struct{}{}
			}
			sum.MaxPoints = max(sum.MaxPoints, r.MaxPoints)
			sum.MaxThreads = max(sum.MaxThreads, r.MaxThreads)
			wall = max(wall, r.WallMs)
			if r.StatesFull {
				statesCapped = true
			}
			if r.StateKeys != "" {
				if kb, err := os.ReadFile(r.StateKeys); err == nil {
					for i := 0; i+8 <= len(kb) && len(stateSet) < 8<<20; i += 8 {
						var k uint64
						for j := 0; j < 8; j++ {
							k |= uint64(kb[i+j]) << (8 * j)
						}
						stateSet[k] = struct{}{}
					}
					os.Remove(r.StateKeys)
				}
			}
			for _, smp := range r.Samples {
				if len(samples) < 6 {
					samples = append(samples, smp)
				}
			}
			for _, f := range r.Found {
				key := f.V.sig() + "@" + s.Name
				a := foundBySig[key]
				if a == nil {
					foundBySig[key] = &agg{f: f, scn: s.Name, mode: r.Mode}
				} else {
					a.f.Count += f.Count
					if f.Bound < a.f.Bound || (f.Bound == a.f.Bound && f.Cost < a.f.Cost) {
						cnt := a.f.Count
						a.f = f
						a.f.Count = cnt
					}
				}
			}
		}
		sum.DistinctHist = max(sum.DistinctHist, len(hist))
		sum.Exhaustive = sum.BoundCompleted >= sum.BoundTarget
		if !sum.Exhaustive {
			exhaustive = false
		}
		sum.WallS = float64(wall) / 1000
		totExec += sum.Execs
		totTrans += sum.Transitions
		totNontriv += sum.Nontrivial
		histAll += sum.DistinctHist
		sums = append(sums, sum)
	}
	// An engine failure in one scenario (a wedged or starved shard process, a step cap) is not a verdict about the
	// library: the scenario counts as not explored, the run as not exhaustive, and the check goes on with the rest.
	if len(engineErrs) > 0 {
		exhaustive = false
		for _, e := range engineErrs {
			if len(e) > 300 {
				e = e[:300]
			}
			fmt.Println("  note: engine failure, scenario not counted as explored:", strings.ReplaceAll(e, "\n", " | "))
		}
	}

	// triage: only violations of the property under check count; group by signature
	type rep struct {
		sig    string
		a      *agg
		kf     *knownFinding
		others []string
		total  int64
	}
	var reps []rep
	otherProps := map[string]int64{}
	keys := make([]string, 0, len(foundBySig))
	for k := range foundBySig {
		keys = append(keys, k)
	}
	sort.Strings(keys)
	for _, k := range keys {
		a := foundBySig[k]
		if a.f.V.Prop != prop {
			otherProps[a.f.V.Prop] += a.f.Count
			continue
		}
		kf := matchKnown(known, a.f.V, a.scn, a.f.Bound)
		merged := false
		for i := range reps {
			if reps[i].sig == a.f.V.sig() && (reps[i].kf == nil) == (kf == nil) {
				reps[i].others = append(reps[i].others, a.scn)
				reps[i].total += a.f.Count
				if a.f.Cost < reps[i].a.f.Cost {
					reps[i].others = append(reps[i].others, reps[i].a.scn)
					reps[i].a = a
				}
				merged = true
				break
			}
		}
		if !merged {
			reps = append(reps, rep{sig: a.f.V.sig(), a: a, kf: kf, total: a.f.Count})
		}
	}
	os.MkdirAll(filepath.Join(outDir, "replays"), 0o755)
	old, _ := filepath.Glob(filepath.Join(outDir, "replays", prop+"-*.json"))
	for _, o := range old {
		os.Remove(o)
	}
	nviol := 0
	printedKnown := map[string]bool{}
	var violLines []string
	knownHit := []string{}
	for i, r := range reps {
		if r.kf != nil {
			key := r.kf.Property + r.kf.Clause + r.kf.Detail + r.kf.Scenario
			if !printedKnown[key] {
				printedKnown[key] = true
				fmt.Printf("KNOWN-FINDING: property=%s clause=%s %s\n", prop, r.kf.Clause, r.kf.What)
				knownHit = append(knownHit, r.kf.Clause+": "+r.kf.What)
			}
			continue
		}
		// a new violation: write its replay file, re-run it twice
		rp := filepath.Join(outDir, "replays", fmt.Sprintf("%s-%d.json", prop, i))
		scn, seqCase := r.a.scn, ""
		if j := strings.Index(scn, "#"); j >= 0 {
			scn, seqCase = scn[:j], scn[j+1:]
		}
		rf := map[string]any{"scenario": scn, "mode": r.a.mode, "race": race, "choices": r.a.f.Choices, "nenabled": r.a.f.NEnabled, "violation": r.a.f.V, "seq_case": seqCase,
			"deviations": r.a.f.Cost, "violating_executions": r.total, "also_in_scenarios": r.others}
		b, _ := json.MarshalIndent(rf, "", " ")
		os.WriteFile(rp, b, 0o644)
		okc := 0
		var lastOut string
		tries := 2
		if race {
			tries = 6 // the detector's shadow history is finite: a real race may go unreported in a given run
		}
		for k := 0; k < tries && okc < 2; k++ {
			c := exec.Command(bin, "-replay", rp)
			c.Env = append(os.Environ(), "GOMAXPROCS=1")
			if race {
				lp := filepath.Join(scratch, fmt.Sprintf("rr%d_%d", i, k))
				c.Env = append(os.Environ(), "GOMAXPROCS=2", "GORACE=halt_on_error=0 exitcode=0 log_path="+lp, "VRT_RACELOG="+lp)
			}
			out, _ := c.CombinedOutput()
			lastOut = string(out)
			if strings.Contains(lastOut, "REPRODUCED "+r.sig) || (strings.HasSuffix(r.a.f.V.Clause, ".spin") && strings.Contains(lastOut, "\nSPIN ")) || (seqCase != "" && strings.Contains(lastOut, "REPRODUCED")) ||
				(race && strings.Contains(lastOut, " C19|C19.race|")) { // which of several races of one schedule the detector reports first varies

				okc++
			}
		}
		if okc != 2 && !(race && okc >= 1) {
			fmt.Printf("ERROR violation %s in %s did not reproduce deterministically from its schedule (%d/2)\n%s\n", r.sig, r.a.scn, okc, tail(lastOut, 2000))
			return 2
		}
		// append the event log of the replay to the file
		rf["replay_output"] = strings.Split(strings.TrimSpace(lastOut), "\n")
		b, _ = json.MarshalIndent(rf, "", " ")
		os.WriteFile(rp, b, 0o644)
		nviol++
		violLines = append(violLines, fmt.Sprintf("VIOLATION property=%s replay=%s", prop, rp))
		fmt.Printf("  violated clause %s in %s and %d other scenarios (%s, %d deviations, %d executions): %s\n", r.a.f.V.Clause, r.a.scn, len(r.others), r.a.mode, r.a.f.Cost, r.total, r.a.f.V.Detail)
	}

	// evidence
	states := int64(len(stateSet)) + seqStates
	if states == 0 {
		states = int64(histAll)
	}
	level := "model_checking"
	if prop == "C11" {
		level = "fault_enumeration"
	}
	cov := map[string]any{
		"evaluations":                   totExec,
		"distinct_nontrivial":           histAll,
		"rule":                          "every schedule (thread choice and environment answer at every synchronisation point) within the deviation bound of each scenario is executed on the instrumented implementation; for sequential scenarios every operation sequence / input up to the stated depth. A case is non-trivial if it deviates from the canonical schedule at least once; distinct = distinct observable event-log histories among those (per scenario, summed).",
		"samples":                       samples,
		"states":                        states,
		"states_capped":                 statesCapped,
		"transitions":                   totTrans,
		"traces_validated_against_impl": totExec,
		"exhaustive":                    exhaustive,
		"nontrivial_executions":         totNontriv,
		"scenarios":                     sums,
		"other_property_observations":   otherProps,
		"known_findings_hit":            knownHit,
		"build_s":                       buildS,
		"shim_litmus":                   litLine,
		"race_mode":                     race,
	}
	if len(samples) == 0 {
		cov["samples"] = []string{"(no sample recorded)"}
	}
	if len(engineErrs) > 0 {
		short := []string{}
		for _, e := range engineErrs {
			if len(e) > 200 {
				e = e[:200]
			}
			short = append(short, e)
		}
		cov["engine_failures_not_explored"] = short
	}
	ev := map[string]any{
		"property_id": prop,
		"tier":        tier,
		"seed":        seed(),
		"level":       level,
		"coverage":    cov,
		"assumptions": []string{
			"sequential consistency of synchronisation operations (Go DRF-SC); data races are looked for separately by C19 in race mode",
			"the shim layer (sync, atomic, time, context, channel enabledness) models Go's semantics; validated by the litmus suite (vcheck litmus)",
			"bounded participants: <= 3 client threads, <= 5 jobs, <= 4 queues, <= 3 consumers; deviation bounds as listed per scenario",
			"real time is abstracted to the order of armed ticks; RWMutex writer preference is not modelled",
		},
		"wall_s":     time.Since(t0).Seconds(),
		"violations": nviol,
	}
	b, _ := json.MarshalIndent(ev, "", " ")
	if err := os.WriteFile(filepath.Join(outDir, prop+".json"), b, 0o644); err != nil {
		fatal("%v", err)
	}
	fmt.Printf("%s %s: %d scenarios, %d executions, %d transitions, %d states, exhaustive=%v, %d new violations, %d known, %.1fs\n",
		prop, tier, len(scs), totExec, totTrans, states, exhaustive, nviol, len(printedKnown), time.Since(t0).Seconds())
	for _, s := range sums {
		if !s.Exhaustive {
			fmt.Printf("  note: %s completed bound %d of %d within its time slice\n", s.Name, s.BoundCompleted, s.BoundTarget)
		}
	}
	for _, l := range violLines {
		fmt.Println(l)
	}
	if nviol > 0 {
		return 1
	}
	return 0
}

func seed() int {
	v, _ := strconv.Atoi(os.Getenv("VERIF_SEED"))
	return v
}

func loadKnown() []knownFinding {
	b, err := os.ReadFile(filepath.Join(verifDir, "known_findings.json"))
	if err != nil {
		return nil
	}
	var kf knownFile
	if err := json.Unmarshal(b, &kf); err != nil {
		fatal("known_findings.json: %v", err)
	}
	return kf.Findings
}

func matchKnown(k []knownFinding, v violation, scn string, bound int) *knownFinding {
	for i := range k {
		f := &k[i]
		if f.Status != "known" || f.Property != v.Prop || f.Clause != v.Clause {
			continue
		}
		if f.Detail != "" {
			if ok, _ := regexp.MatchString(f.Detail, v.Detail); !ok {
				continue
			}
		}
		if f.Scenario != "" {
			if ok, _ := regexp.MatchString(f.Scenario, scn); !ok {
				continue
			}
		}
		if f.MinBound != nil && bound < *f.MinBound {
			continue // the same clause with fewer deviations than recorded is a new violation
		}
		return f
	}
	return nil
}

// litmusCmd: explore the litmus programs under the shims, then run them natively and compare.
func litmusCmd() int {
	scratch, _ := os.MkdirTemp("", "varmq-verif-")
	defer os.RemoveAll(scratch)
	bin := build(scratch, false)
	lj := filepath.Join(scratch, "litmus.json")
	out, err := exec.Command(bin, "-litmus", lj).CombinedOutput()
	fmt.Print(string(out))
	if err != nil {
		return 2
	}
	nat := filepath.Join(scratch, "litnative")
	if o, err := run(filepath.Join(verifDir, "engine", "litmus", "cmd", "native"), goEnv(), "go", "build", "-o", nat, "."); err != nil {
		fmt.Print(o)
		return 2
	}
	o, err := exec.Command(nat, lj).CombinedOutput()
	fmt.Print(string(o))
	if err != nil {
		return 2
	}
	return 0
}
