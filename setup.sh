#!/bin/bash
# setup.sh: build the framework from files on disk only (offline) and warm the build cache.
set -e
cd "$(dirname "$0")"
export GOFLAGS=-mod=mod GOPROXY=off GOCACHE=$PWD/.cache/go-build
mkdir -p bin .cache/go-build evidence
(cd engine/vinst && go build -o ../../bin/vinst .)
(cd cmd/vcheck && go build -o ../../bin/vcheck .)
# warm the cache: normal and race builds of the instrumented module, litmus against the real packages
S=$(mktemp -d)
trap 'rm -rf "$S"' EXIT
./bin/vinst -repo ${VERIF_REPO:-/repo} -out "$S/mod" -shim engine/shim -harness harness -litmus engine/litmus >/dev/null
(cd "$S/mod" && go build -o "$S/vexplore" ./cmd/vexplore && go build -race -o "$S/vexplore-race" ./cmd/vexplore)
./bin/vcheck litmus
echo "setup ok"
