#!/bin/bash
# seed_confirm.sh <seed-dir>: confirm a seeded change in a scratch worktree of /repo:
#  (1) the patch applies, (2) the library's test suite passes with it, (3) the demonstration fails with it, (4) passes without it.
D=$(cd "$1" && pwd)
export GOFLAGS=-mod=mod GOPROXY=off
wt=$(mktemp -d /tmp/seedconf.XXXX)
git -C /repo worktree add --detach -q $wt HEAD
cd $wt
cp $D/*_test.go . 2>/dev/null
demo_run() { go test -vet=off -count=1 -run 'TestSeed|TestDemo|Seed' . 2>&1 | tail -3 | tr '\n' ' '; }
echo "without change, demo: $(demo_run)"
git apply $D/patch.diff && echo "patch applies"
echo "with change, demo: $(demo_run)"
rm -f zz_seed*_test.go $(cd $D; ls *_test.go 2>/dev/null)
echo "with change, suite: $(go test -vet=off -count=1 ./... 2>&1 | grep -v 'no test files' | grep -c '^ok') ok packages, $(go test -vet=off -count=1 ./... 2>&1 | grep -c '^FAIL\|^--- FAIL') failures"
cd /; git -C /repo worktree remove --force $wt
